//! C07 — after a crash the filesystem holds exactly what was made durable.

use crate::core::prng::Rng;
use crate::core::{Log, Property, Report, Tier, Violation};
use crate::fskit::model::{Inode, Model, Obs};
use crate::fskit::{exec_model, model_sweep, obs_brief, FsKnobs, FsOp, RealFs, SweepEntry};
use crate::props::c10::{self, first_guard_violation, guard_step, Gen, GuardState, ALL_KF};
use serde::{Deserialize, Serialize};

#[derive(Clone, Debug, Serialize, Deserialize)]
pub struct Scenario {
    pub guarded: bool,
    pub knobs: FsKnobs,
    /// the history; `Crash` ops may appear inside (crash-continue-crash). A final crash is always
    /// injected after the last op.
    pub ops: Vec<FsOp>,
}

pub struct C07;

pub const KF_XDIR: &str = "cross-directory-rename-durability";

fn parent_of(p: &str) -> &str {
    match p.rfind('/') {
        Some(0) | None => "/",
        Some(i) => &p[..i],
    }
}

/// C07-specific known finding: a rename between two different directories is flushed by the
/// first sync_dir of either parent, which records the entry change only for that parent.
fn c07_guard(ops: &[FsOp]) -> Option<&'static str> {
    let mut m = Model::new();
    for op in ops {
        if let FsOp::Rename { from, to, .. } = op {
            if m.exists(from) && parent_of(from) != parent_of(to) {
                return Some(KF_XDIR);
            }
        }
        if exec_model(&mut m, op) == Obs::Unjudged {
            break;
        }
    }
    None
}

fn first_known(ops: &[FsOp]) -> Option<&'static str> {
    // segments between crashes are judged separately by the C10 guards (a crash clears pending state)
    let mut seg: Vec<FsOp> = Vec::new();
    let mut m = Model::new();
    let mut gs = GuardState::default();
    for op in ops {
        if matches!(op, FsOp::Crash) {
            m.crash();
            gs = GuardState::default();
            seg.clear();
            continue;
        }
        if let Some(k) = c10::guard_violation(&m, &gs, op) {
            return Some(k);
        }
        let mo = exec_model(&mut m, op);
        if mo == Obs::Unjudged {
            break;
        }
        guard_step(&mut gs, op, &mo);
        seg.push(op.clone());
    }
    let _ = (first_guard_violation as fn(&[FsOp]) -> Option<&'static str>, c07_guard as fn(&[FsOp]) -> Option<&'static str>);
    None
}

impl Property for C07 {
    const ID: &'static str = "C07";
    const LEVEL: &'static str = "fault_enumeration";
    type Scenario = Scenario;

    fn rule() -> String {
        "seeded state-aware histories of 2-14 ops (create, create_new, open truncate/append, write_at, append, set_len, sync_all, sync_data, sync_dir, rename incl. onto existing names, remove_file, create_dir, remove_dir) through the std and tokio shims, sync_probability in {0,0.3}, block_size in {None,4,16}; fault = crash: for each seeded history a crash is injected after EVERY prefix (fresh Fs per prefix; handles dropped, Fs::crash), a quarter of the histories also contain an earlier crash (crash-continue-crash); after each crash the recursive tree (entry sets, kinds, lengths, full contents) is compared with the durable image of the inode-based reference model (entry durable iff its parent was sync_dir'ed after the entry change; content = content at last data sync; with the knobs on, content must lie in the admissible set: a later data-op snapshot / block-prefix overlays of pending writes). Non-trivial: the crash discarded >=1 pending change and >=1 durable file or directory survived; distinct = distinct digests of (op kinds, post-crash tree shape)".into()
    }
    fn components_real() -> Vec<&'static str> {
        vec!["turmoil-fs: Fs (pending log, sync_file, sync_file_data, sync_dir, crash, torn writes, random sync), shim::std::fs, shim::tokio::fs"]
    }
    fn components_stub() -> Vec<&'static str> {
        vec!["the workload and the embedder: the harness calls turmoil_fs::enter and Fs::crash itself (what turmoil::Sim::crash does for a host); the in-Sim path (Sim::crash/bounce) is exercised by C04's fs phase"]
    }
    fn assumptions() -> Vec<String> {
        vec![
            "expectations are asserted only for objects reachable from / through durable directories; once a crash leaves a dangling durable subtree (unspecified by the crate's model) the run is not judged further".into(),
            "symlinks, hard links, permissions and timestamps are not generated".into(),
            "pre-crash divergences between turmoil-fs and the POSIX model are C10's business: a run whose pre-crash observations already diverge is cut short here and counted in probes.precrash_divergence".into(),
        ]
    }
    fn budget(tier: Tier) -> u64 {
        match tier {
            Tier::Quick => 40_000,
            Tier::Thorough => 1_500_000,
        }
    }

    fn generate(rng: &mut Rng, _idx: u64, _tier: Tier) -> Scenario {
        let guarded = !rng.chance(1, 20);
        let n = rng.usize(2, 14);
        let knobs = FsKnobs {
            sync_pct: if rng.chance(1, 4) { 30 } else { 0 },
            block_size: *rng.pick(&[0u64, 0, 0, 4, 16]),
            fs_seed: rng.next_u64(),
        };
        let with_mid_crash = rng.chance(1, 4);
        let mid = if with_mid_crash { rng.usize(1, n) } else { usize::MAX };
        let mut m = Model::new();
        let mut gs = GuardState::default();
        let mut ops = Vec::new();
        let mut g = Gen { rng, guarded, tag: 0, allow_tokio: true };
        for i in 0..n {
            if i == mid {
                ops.push(FsOp::Crash);
                m.crash();
                gs = GuardState::default();
            }
            let mut op = g.op(&m, &gs);
            // C07 wants durability-relevant histories: bias read-only ops towards syncs and writes
            if matches!(op, FsOp::ReadAt { .. } | FsOp::Read { .. } | FsOp::Metadata { .. } | FsOp::Exists { .. } | FsOp::ReadDir { .. } | FsOp::Seek { .. } | FsOp::HandleLen { .. } | FsOp::Advance { .. })
                && g.rng.chance(2, 3)
            {
                op = g.op(&m, &gs);
            }
            let mo = exec_model(&mut m, &op);
            guard_step(&mut gs, &op, &mo);
            ops.push(op);
        }
        Scenario { guarded, knobs, ops }
    }

    /// Fault enumeration: a crash after every prefix of the history.
    fn variants(base: &Scenario, _tier: Tier) -> Vec<Scenario> {
        (1..=base.ops.len())
            .filter(|k| !matches!(base.ops[*k - 1], FsOp::Crash))
            .map(|k| Scenario { guarded: base.guarded, knobs: base.knobs.clone(), ops: base.ops[..k].to_vec() })
            .collect()
    }

    fn run(sc: &Scenario, keep: bool) -> Report {
        let mut log = Log::new(keep);
        let mut real = RealFs::new(&sc.knobs);
        let mut m = Model::new();
        let mut violation: Option<Violation> = None;
        let mut harness_error = None;
        let mut rep = Report::default();
        let mut nontrivial = false;
        let mut ops: Vec<FsOp> = sc.ops.clone();
        ops.push(FsOp::Crash);
        'run: for (i, op) in ops.iter().enumerate() {
            if let FsOp::Crash = op {
                // ---- the fault ----
                let before = model_sweep(&m);
                // snapshot what the model needs for the admissible sets before it forgets
                let pre = m.clone();
                let dangling = m.crash();
                real.crash();
                rep.faults.inc("crash");
                let after = model_sweep(&m);
                let rs = real.sweep();
                log.ev(format!("#{i} CRASH -> tree {:?}", rs.iter().filter(|(_, e)| **e != SweepEntry::Absent).map(|(p, e)| (p.clone(), brief(e))).collect::<Vec<_>>()));
                let survivors = after.iter().filter(|(p, e)| p.as_str() != "/" && **e != SweepEntry::Absent).count();
                if before != after && survivors > 0 {
                    nontrivial = true;
                }
                if before != after {
                    rep.probes.inc("crash_discarded_pending_state");
                }
                log.tag("crash");
                log.tag_u64(survivors as u64);
                for (p, me) in &after {
                    let re = &rs[p];
                    // judged only when every ancestor directory is itself durable (property text:
                    // dangling subtrees are unspecified); a wrong ancestor is flagged at the ancestor
                    let mut anc = parent_of(p);
                    let mut ancestors_durable = true;
                    while anc != "/" {
                        if !matches!(after.get(anc), Some(SweepEntry::Dir(_))) {
                            ancestors_durable = false;
                        }
                        anc = parent_of(anc);
                    }
                    if p.as_str() != "/" && !ancestors_durable {
                        continue;
                    }
                    let ok = match (me, re) {
                        (SweepEntry::File { content: mc, .. }, SweepEntry::File { len, content }) => {
                            if *len != content.len() as u64 {
                                false
                            } else if sc.knobs.sync_pct == 0 && sc.knobs.block_size == 0 {
                                mc == content
                            } else {
                                let ino = m.lookup(p).unwrap();
                                let ok = pre.admissible_after_crash(ino, sc.knobs.sync_pct > 0, sc.knobs.block_size, content);
                                if ok && mc != content {
                                    rep.probes.inc(if sc.knobs.block_size > 0 { "torn_or_bg_synced_content_observed" } else { "bg_synced_content_observed" });
                                    // the model continues from what the disk really holds
                                    if let Inode::File { data } = &mut m.inodes[ino] {
                                        *data = content.clone();
                                    }
                                    m.durable_content.insert(ino, content.clone());
                                }
                                ok
                            }
                        }
                        (a, b) => a == b,
                    };
                    if !ok {
                        let class = match (me, re) {
                            (SweepEntry::File { .. }, SweepEntry::File { .. }) => "PostCrashContent",
                            _ => "PostCrashTree",
                        };
                        violation = Some(Violation::new(
                            class,
                            format!("after crash at #{i}: path {p}: durable image says {}, filesystem holds {}", brief(me), brief(re)),
                        ));
                        break 'run;
                    }
                }
                if dangling {
                    rep.probes.inc("dangling_subtree_run_cut");
                    break;
                }
                continue;
            }
            let mo = exec_model(&mut m, op);
            if mo == Obs::Unjudged {
                break;
            }
            let ro = match real.exec(op) {
                Ok(o) => o,
                Err(e) => {
                    harness_error = Some(e);
                    break;
                }
            };
            log.ev(format!("#{i} {:?} -> {}", op, obs_brief(&ro)));
            log.tag(op.kind());
            if c10::compare(&mo, &ro).is_some() {
                rep.probes.inc("precrash_divergence");
                break;
            }
        }
        rep.abstract_digest = log.abs_digest();
        rep.full_digest = log.full_digest();
        rep.log = log.lines;
        rep.violation = violation;
        rep.harness_error = harness_error;
        rep.nontrivial = nontrivial;
        rep.steps = sc.ops.len() as u64;
        rep
    }

    fn shrink(sc: &Scenario) -> Vec<Scenario> {
        let mut out: Vec<Scenario> = c10::shrink_ops(&sc.ops)
            .into_iter()
            .map(|ops| Scenario { guarded: sc.guarded, knobs: sc.knobs.clone(), ops })
            .filter(|c| !sc.guarded || first_known(&c.ops).is_none())
            .collect();
        if sc.knobs.sync_pct > 0 {
            out.push(Scenario { knobs: FsKnobs { sync_pct: 0, ..sc.knobs.clone() }, ..sc.clone() });
        }
        if sc.knobs.block_size > 0 {
            out.push(Scenario { knobs: FsKnobs { block_size: 0, ..sc.knobs.clone() }, ..sc.clone() });
        }
        out
    }

    fn signature(sc: &Scenario) -> String {
        format!(
            "{}{} s{} b{} {}",
            first_known(&sc.ops).map(|k| format!("KNOWN[{k}] ")).unwrap_or_default(),
            if sc.guarded { "G" } else { "U" },
            sc.knobs.sync_pct,
            sc.knobs.block_size,
            sc.ops.iter().map(|o| o.kind()).collect::<Vec<_>>().join(",")
        )
    }

    fn known_match(matcher: &str, sc: &Scenario, _v: &Violation) -> bool {
        let _ = ALL_KF;
        first_known(&sc.ops) == Some(matcher)
    }
}

fn brief(e: &SweepEntry) -> String {
    match e {
        SweepEntry::Absent => "absent".into(),
        SweepEntry::Dir(n) => format!("dir{:?}", n),
        SweepEntry::File { len, content } => format!("file(len={}, {:?})", len, &content[..content.len().min(24)]),
    }
}
