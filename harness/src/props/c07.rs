//! C07 — after a crash the filesystem holds exactly what was made durable.

use crate::core::prng::Rng;
use crate::core::{Log, Property, Report, Tier, Violation};
use crate::fskit::model::{Inode, Model, Obs};
use crate::fskit::{exec_model, model_sweep, obs_brief, FsKnobs, FsOp, RealFs, SweepEntry};
use crate::props::c10::{self, first_guard_violation, guard_step, Gen, GuardState, ALL_KF};
use serde::{Deserialize, Serialize};

#[derive(Clone, Debug, Serialize, Deserialize)]
pub struct Scenario {
    pub guarded: bool,
    pub knobs: FsKnobs,
    /// the history; `Crash` ops may appear inside (crash-continue-crash). A final crash is always
    /// injected after the last op.
    pub ops: Vec<FsOp>,
    /// false: direct driver (entered Fs, Fs::crash). true: the same history as a host program inside a
    /// running turmoil::Sim, crash = Sim::crash + Sim::bounce, the restarted incarnation dumps the tree.
    #[serde(default)]
    pub in_sim: bool,
    /// in-Sim only: history of a second host with the same path names (independent tree)
    #[serde(default)]
    pub ops2: Vec<FsOp>,
    /// in-Sim only: the host software returns Ok(()) when it reaches a crash point (its handles are
    /// dropped, the host stops being scheduled) instead of staying alive until Sim::crash
    #[serde(default)]
    pub finish_before_crash: bool,
    /// in-Sim only: every crash is one `Sim::crash` call (and one `Sim::bounce` call) that matches all hosts
    #[serde(default)]
    pub crash_all: bool,
}

pub struct C07;

pub const KF_XDIR: &str = "cross-directory-rename-durability";

fn parent_of(p: &str) -> &str {
    match p.rfind('/') {
        Some(0) | None => "/",
        Some(i) => &p[..i],
    }
}

/// C07-specific known finding: a rename between two different directories is flushed by the
/// first sync_dir of either parent, which records the entry change only for that parent.
fn c07_guard(ops: &[FsOp]) -> Option<&'static str> {
    let mut m = Model::new();
    for op in ops {
        if let FsOp::Rename { from, to, .. } = op {
            if m.exists(from) && parent_of(from) != parent_of(to) {
                return Some(KF_XDIR);
            }
        }
        if exec_model(&mut m, op) == Obs::Unjudged {
            break;
        }
    }
    None
}

fn first_known(ops: &[FsOp]) -> Option<&'static str> {
    first_known_k(ops, false).or_else(|| None)
}

fn first_known_k(ops: &[FsOp], strict_remove: bool) -> Option<&'static str> {
    // segments between crashes are judged separately by the C10 guards (a crash clears pending state)
    let mut seg: Vec<FsOp> = Vec::new();
    let mut m = Model::new();
    let mut gs = GuardState { strict_remove, ..Default::default() };
    for op in ops {
        if matches!(op, FsOp::Crash) {
            m.crash();
            gs = GuardState { strict_remove, ..Default::default() };
            seg.clear();
            continue;
        }
        if let Some(k) = c10::guard_violation(&m, &gs, op) {
            return Some(k);
        }
        let mo = exec_model(&mut m, op);
        if mo == Obs::Unjudged {
            break;
        }
        guard_step(&mut gs, op, &mo, &m);
        seg.push(op.clone());
    }
    let _ = (first_guard_violation as fn(&[FsOp]) -> Option<&'static str>, c07_guard as fn(&[FsOp]) -> Option<&'static str>);
    None
}

impl Property for C07 {
    const ID: &'static str = "C07";
    const LEVEL: &'static str = "fault_enumeration";
    type Scenario = Scenario;

    fn rule() -> String {
        "seeded state-aware histories of 2-14 ops (create, create_new, open truncate/append, write_at, append, set_len, sync_all, sync_data, sync_dir, rename incl. onto existing names, remove_file, create_dir, remove_dir) through the std shim, the tokio shim and io_uring (write/fsync SQEs), sync_probability in {0,0.3}, block_size in {None,4,16}; fault = crash: for each seeded history a crash is injected after EVERY prefix (fresh Fs per prefix; handles dropped, Fs::crash), a quarter of the histories also contain an earlier crash (crash-continue-crash); a third of the crash points are additionally replayed inside a running turmoil::Sim (history as host program, Sim::crash + Sim::bounce, the restarted incarnation dumps the tree, a second host runs the full history on the same path names); after each crash the recursive tree (entry sets, kinds, lengths, full contents) is compared with the durable image of the inode-based reference model (entry durable iff its parent was sync_dir'ed after the entry change; content = content at last data sync; with the knobs on, content must lie in the admissible set: a later data-op snapshot / block-prefix overlays of pending writes). Non-trivial: the crash discarded >=1 pending change and >=1 durable file or directory survived; distinct = distinct digests of (op kinds, post-crash tree shape) Round 11: in a third of the in-Sim runs every crash is one Sim::crash / Sim::bounce call with a regex matching all hosts.".into()
    }
    fn components_real() -> Vec<&'static str> {
        vec!["turmoil-fs: Fs (pending log, sync_file, sync_file_data, sync_dir, crash, torn writes, random sync), shim::std::fs, shim::tokio::fs"]
    }
    fn components_stub() -> Vec<&'static str> {
        vec!["the workload; in the direct driver also the embedder (the harness calls turmoil_fs::enter and Fs::crash itself); in the in-Sim driver the history runs as a host program inside a real turmoil::Sim (Sim::crash + Sim::bounce, second host with the same paths)"]
    }
    fn assumptions() -> Vec<String> {
        vec![
            "expectations are asserted only for objects reachable from / through durable directories; once a crash leaves a dangling durable subtree (unspecified by the crate's model) the run is not judged further".into(),
            "symlinks, hard links, permissions and timestamps are not generated".into(),
            "pre-crash divergences between turmoil-fs and the POSIX model are C10's business: a run whose pre-crash observations already diverge is cut short here and counted in probes.precrash_divergence".into(),
        ]
    }
    fn budget(tier: Tier) -> u64 {
        match tier {
            Tier::Quick => 120_000,
            Tier::Thorough => 1_500_000,
        }
    }

    fn generate(rng: &mut Rng, _idx: u64, _tier: Tier) -> Scenario {
        let guarded = !rng.chance(1, 20);
        let n = rng.usize(2, 14);
        let knobs = FsKnobs {
            sync_pct: if rng.chance(1, 4) { 30 } else { 0 },
            block_size: *rng.pick(&[0u64, 0, 0, 4, 16]),
            fs_seed: rng.next_u64(),
        };
        let with_mid_crash = rng.chance(1, 4);
        let mid = if with_mid_crash { rng.usize(1, n) } else { usize::MAX };
        let mut m = Model::new();
        let strict_remove = knobs.block_size > 0;
        let mut gs = GuardState { strict_remove, ..Default::default() };
        let mut ops = Vec::new();
        let mut g = Gen { rng, guarded, tag: 0, allow_tokio: true };
        // one history in eight starts with the atomic-replace idiom (a rename over a name that is durable)
        if g.rng.chance(1, 8) {
            for op in g.idiom_atomic_replace() {
                if guarded && c10::guard_violation(&m, &gs, &op).is_some() {
                    break;
                }
                let mo = exec_model(&mut m, &op);
                if mo == crate::fskit::model::Obs::Unjudged {
                    break;
                }
                guard_step(&mut gs, &op, &mo, &m);
                ops.push(op);
            }
        }
        for i in 0..n {
            if i == mid {
                ops.push(FsOp::Crash);
                m.crash();
                gs = GuardState { strict_remove, ..Default::default() };
            }
            let mut op = g.op(&m, &gs);
            // C07 wants durability-relevant histories: bias read-only ops towards syncs and writes
            if matches!(op, FsOp::ReadAt { .. } | FsOp::Read { .. } | FsOp::Metadata { .. } | FsOp::Exists { .. } | FsOp::ReadDir { .. } | FsOp::Seek { .. } | FsOp::HandleLen { .. } | FsOp::Advance { .. })
                && g.rng.chance(2, 3)
            {
                op = g.op(&m, &gs);
            }
            let mo = exec_model(&mut m, &op);
            guard_step(&mut gs, &op, &mo, &m);
            ops.push(op);
        }
        Scenario { guarded, knobs, ops, in_sim: false, ops2: vec![], finish_before_crash: false, crash_all: false }
    }

    /// Fault enumeration: a crash after every prefix of the history.
    fn variants(base: &Scenario, _tier: Tier) -> Vec<Scenario> {
        (1..=base.ops.len())
            .filter(|k| !matches!(base.ops[*k - 1], FsOp::Crash))
            .map(|k| Scenario { guarded: base.guarded, knobs: base.knobs.clone(), ops: base.ops[..k].to_vec(), in_sim: false, ops2: vec![], finish_before_crash: false, crash_all: false })
            // the same fault placements once more inside a running simulation (Sim::crash / Sim::bounce),
            // with the full history running on a second host with identical path names
            .chain((1..=base.ops.len()).filter(|k| !matches!(base.ops[*k - 1], FsOp::Crash) && (*k % 3 == base.ops.len() % 3)).map(|k| Scenario {
                guarded: base.guarded,
                knobs: base.knobs.clone(),
                ops: base.ops[..k].to_vec(),
                in_sim: true,
                ops2: base.ops.clone(),
                finish_before_crash: (k + base.ops.len()) % 2 == 0,
                crash_all: base.knobs.fs_seed % 3 == 0,
            }))
            .collect()
    }

    fn run(sc: &Scenario, keep: bool) -> Report {
        if sc.in_sim {
            return run_in_sim(sc, keep);
        }
        let mut log = Log::new(keep);
        let mut real = RealFs::new(&sc.knobs);
        let mut j = Judge::new(&sc.knobs, "");
        let mut harness_error = None;
        let mut ops: Vec<FsOp> = sc.ops.clone();
        ops.push(FsOp::Crash);
        for (i, op) in ops.iter().enumerate() {
            if let FsOp::Crash = op {
                // ---- the fault ----
                let exp = j.crash_expect();
                real.crash();
                let rs = real.sweep();
                if !j.check_crash(i, exp, &rs, &mut log) {
                    break;
                }
                continue;
            }
            let Some(mo) = j.model_op(op) else { break };
            let ro = match real.exec(op) {
                Ok(o) => o,
                Err(e) => {
                    harness_error = Some(e);
                    break;
                }
            };
            if !j.check_op(i, op, &mo, &ro, &mut log) {
                break;
            }
        }
        let mut rep = j.rep;
        rep.abstract_digest = log.abs_digest();
        rep.full_digest = log.full_digest();
        rep.log = log.lines;
        rep.violation = j.violation;
        rep.harness_error = harness_error;
        rep.nontrivial = j.nontrivial;
        rep.steps = sc.ops.len() as u64;
        rep
    }

    fn shrink(sc: &Scenario) -> Vec<Scenario> {
        let mut out: Vec<Scenario> = c10::shrink_ops(&sc.ops)
            .into_iter()
            .map(|ops| Scenario { guarded: sc.guarded, knobs: sc.knobs.clone(), ops, in_sim: sc.in_sim, ops2: sc.ops2.clone(), finish_before_crash: sc.finish_before_crash, crash_all: sc.crash_all })
            .filter(|c| !sc.guarded || first_known_k(&c.ops, c.knobs.block_size > 0).is_none())
            .collect();
        if !sc.ops2.is_empty() {
            out.push(Scenario { ops2: vec![], ..sc.clone() });
            for ops2 in c10::shrink_ops(&sc.ops2) {
                let c = Scenario { ops2, ..sc.clone() };
                if !sc.guarded || first_known_k(&c.ops2, c.knobs.block_size > 0).is_none() {
                    out.push(c);
                }
            }
        }
        if sc.in_sim {
            out.push(Scenario { in_sim: false, ops2: vec![], finish_before_crash: false, crash_all: false, ..sc.clone() });
            if sc.finish_before_crash {
                out.push(Scenario { finish_before_crash: false, ..sc.clone() });
            }
        }
        if sc.knobs.sync_pct > 0 {
            out.push(Scenario { knobs: FsKnobs { sync_pct: 0, ..sc.knobs.clone() }, ..sc.clone() });
        }
        if sc.knobs.block_size > 0 {
            out.push(Scenario { knobs: FsKnobs { block_size: 0, ..sc.knobs.clone() }, ..sc.clone() });
        }
        out
    }

    fn signature(sc: &Scenario) -> String {
        format!(
            "{}{}{} s{} b{} {}",
            if sc.in_sim { "SIM " } else { "" },
            first_known_k(&sc.ops, sc.knobs.block_size > 0).map(|k| format!("KNOWN[{k}] ")).unwrap_or_default(),
            if sc.guarded { "G" } else { "U" },
            sc.knobs.sync_pct,
            sc.knobs.block_size,
            sc.ops.iter().map(|o| o.kind()).collect::<Vec<_>>().join(",") + &if sc.ops2.is_empty() { String::new() } else { format!(" || {}{}", first_known_k(&sc.ops2, sc.knobs.block_size > 0).map(|k| format!("KNOWN[{k}] ")).unwrap_or_default(), sc.ops2.iter().map(|o| o.kind()).collect::<Vec<_>>().join(",")) }
        )
    }

    fn known_match(matcher: &str, sc: &Scenario, _v: &Violation) -> bool {
        let _ = ALL_KF;
        let strict = sc.knobs.block_size > 0;
        first_known_k(&sc.ops, strict) == Some(matcher) || (sc.in_sim && first_known_k(&sc.ops2, strict) == Some(matcher))
    }
}

fn brief(e: &SweepEntry) -> String {
    match e {
        SweepEntry::Absent => "absent".into(),
        SweepEntry::Dir(n) => format!("dir{:?}", n),
        SweepEntry::File { len, content } => format!("file(len={}, {:?})", len, &content[..content.len().min(24)]),
    }
}

/// The oracle shared by the direct and the in-Sim driver: reference model + durable image.
struct Judge {
    m: Model,
    knobs: FsKnobs,
    violation: Option<Violation>,
    nontrivial: bool,
    rep: Report,
    who: String,
}

struct CrashExpect {
    before: std::collections::BTreeMap<String, SweepEntry>,
    pre: Model,
    after: std::collections::BTreeMap<String, SweepEntry>,
    dangling: bool,
}

impl Judge {
    fn new(knobs: &FsKnobs, who: &str) -> Self {
        Judge { m: Model::new(), knobs: knobs.clone(), violation: None, nontrivial: false, rep: Report::default(), who: who.to_string() }
    }

    /// Apply `op` to the model; None = outside the property, stop judging.
    fn model_op(&mut self, op: &FsOp) -> Option<Obs> {
        let mo = exec_model(&mut self.m, op);
        if mo == Obs::Unjudged {
            None
        } else {
            Some(mo)
        }
    }

    /// false = stop this run (pre-crash divergence is C10's business)
    fn check_op(&mut self, i: usize, op: &FsOp, mo: &Obs, ro: &Obs, log: &mut Log) -> bool {
        log.ev(format!("{}#{i} {:?} -> {}", self.who, op, obs_brief(ro)));
        log.tag(op.kind());
        if c10::compare(mo, ro).is_some() {
            self.rep.probes.inc("precrash_divergence");
            return false;
        }
        true
    }

    /// Crash the model; remember what is needed to judge the real tree.
    fn crash_expect(&mut self) -> CrashExpect {
        let before = model_sweep(&self.m);
        // snapshot what the model needs for the admissible sets before it forgets
        let pre = self.m.clone();
        let dangling = self.m.crash();
        self.rep.faults.inc("crash");
        let after = model_sweep(&self.m);
        CrashExpect { before, pre, after, dangling }
    }

    /// Compare the post-crash tree; false = stop this run.
    fn check_crash(&mut self, i: usize, exp: CrashExpect, rs: &std::collections::BTreeMap<String, SweepEntry>, log: &mut Log) -> bool {
        let CrashExpect { before, pre, after, dangling } = exp;
        log.ev(format!("{}#{i} CRASH -> tree {:?}", self.who, rs.iter().filter(|(_, e)| **e != SweepEntry::Absent).map(|(p, e)| (p.clone(), brief(e))).collect::<Vec<_>>()));
        let survivors = after.iter().filter(|(p, e)| p.as_str() != "/" && **e != SweepEntry::Absent).count();
        if before != after && survivors > 0 {
            self.nontrivial = true;
        }
        if before != after {
            self.rep.probes.inc("crash_discarded_pending_state");
        }
        log.tag("crash");
        log.tag_u64(survivors as u64);
        for (p, me) in &after {
            let re = &rs[p];
            // judged only when every ancestor directory is itself durable (property text:
            // dangling subtrees are unspecified); a wrong ancestor is flagged at the ancestor
            let mut anc = parent_of(p);
            let mut ancestors_durable = true;
            while anc != "/" {
                if !matches!(after.get(anc), Some(SweepEntry::Dir(_))) {
                    ancestors_durable = false;
                }
                anc = parent_of(anc);
            }
            if p.as_str() != "/" && !ancestors_durable {
                continue;
            }
            let ok = match (me, re) {
                (SweepEntry::File { content: mc, .. }, SweepEntry::File { len, content }) => {
                    if *len != content.len() as u64 {
                        false
                    } else if self.knobs.sync_pct == 0 && self.knobs.block_size == 0 {
                        mc == content
                    } else {
                        let ino = self.m.lookup(p).unwrap();
                        let ok = pre.admissible_after_crash(ino, self.knobs.sync_pct > 0, self.knobs.block_size, content);
                        if ok && mc != content {
                            self.rep.probes.inc(if self.knobs.block_size > 0 { "torn_or_bg_synced_content_observed" } else { "bg_synced_content_observed" });
                            // the model continues from what the disk really holds
                            if let Inode::File { data } = &mut self.m.inodes[ino] {
                                *data = content.clone();
                            }
                            self.m.durable_content.insert(ino, content.clone());
                        }
                        ok
                    }
                }
                (a, b) => a == b,
            };
            if !ok {
                let class = match (me, re) {
                    (SweepEntry::File { .. }, SweepEntry::File { .. }) => "PostCrashContent",
                    _ => "PostCrashTree",
                };
                self.violation = Some(Violation::new(
                    class,
                    format!("{}after crash at #{i}: path {p}: durable image says {}, filesystem holds {}", self.who, brief(me), brief(re)),
                ));
                return false;
            }
        }
        if dangling {
            self.rep.probes.inc("dangling_subtree_run_cut");
            return false;
        }
        true
    }
}

// ---- in-Sim driver ------------------------------------------------------------------------------

#[derive(Clone)]
enum HostEvent {
    Op(usize, Obs),
    /// first thing a restarted incarnation does: dump the tree
    Sweep(std::collections::BTreeMap<String, SweepEntry>),
    Error(String),
}

struct HostShared {
    finish_before_crash: bool,
    ops: Vec<FsOp>,
    cursor: std::cell::Cell<usize>,
    want_crash: std::cell::Cell<bool>,
    incarnation: std::cell::Cell<u32>,
    events: std::cell::RefCell<Vec<HostEvent>>,
}

async fn host_program(sh: std::rc::Rc<HostShared>) -> turmoil::Result {
    let inc = sh.incarnation.get() + 1;
    sh.incarnation.set(inc);
    let mut ops = crate::fskit::Ops::default();
    if inc > 1 {
        sh.events.borrow_mut().push(HostEvent::Sweep(ops.sweep_entered()));
    }
    loop {
        let i = sh.cursor.get();
        if i >= sh.ops.len() {
            break;
        }
        match &sh.ops[i] {
            FsOp::Crash => {
                sh.want_crash.set(true);
                if sh.finish_before_crash {
                    // the software ends on its own: handles are dropped, the host is no longer
                    // scheduled; Sim::crash must still roll the filesystem back
                    drop(ops);
                    return Ok(());
                }
                break;
            }
            FsOp::Advance { ms } => {
                tokio::time::sleep(std::time::Duration::from_millis((*ms).min(50) as u64)).await;
                sh.events.borrow_mut().push(HostEvent::Op(i, Obs::Unit));
            }
            op => {
                match ops.exec_entered(op) {
                    Ok(o) => sh.events.borrow_mut().push(HostEvent::Op(i, o)),
                    Err(e) => {
                        sh.events.borrow_mut().push(HostEvent::Error(e));
                        break;
                    }
                }
                if i % 3 == 2 {
                    tokio::task::yield_now().await;
                }
            }
        }
        sh.cursor.set(i + 1);
    }
    // keep the handles alive (a crash drops them with the task)
    std::future::pending::<()>().await;
    drop(ops);
    Ok(())
}

pub(crate) fn run_in_sim(sc: &Scenario, keep: bool) -> Report {
    use std::rc::Rc;
    let mut log = Log::new(keep);
    let mut lists: Vec<Vec<FsOp>> = vec![sc.ops.clone()];
    if !sc.ops2.is_empty() {
        lists.push(sc.ops2.clone());
    }
    for l in lists.iter_mut() {
        l.push(FsOp::Crash); // final crash
    }
    let shared: Vec<Rc<HostShared>> = lists
        .iter()
        .map(|l| {
            Rc::new(HostShared {
                finish_before_crash: sc.finish_before_crash,
                ops: l.clone(),
                cursor: std::cell::Cell::new(0),
                want_crash: std::cell::Cell::new(false),
                incarnation: std::cell::Cell::new(0),
                events: std::cell::RefCell::new(Vec::new()),
            })
        })
        .collect();
    let mut judges: Vec<Judge> = (0..lists.len()).map(|h| Judge::new(&sc.knobs, &format!("n{h} "))).collect();
    let mut pending_crash: Vec<Option<(usize, CrashExpect)>> = (0..lists.len()).map(|_| None).collect();
    let mut active: Vec<bool> = vec![true; lists.len()];
    let mut harness_error = None;
    let mut multi_crashes = 0u64;

    let res = crate::core::catch(|| {
        let mut b = turmoil::Builder::new();
        b.rng_seed(sc.knobs.fs_seed).epoch(std::time::UNIX_EPOCH + std::time::Duration::from_secs(1_500_000_000)).tick_duration(std::time::Duration::from_millis(1));
        {
            let f = b.fs();
            if sc.knobs.sync_pct > 0 {
                f.sync_probability(sc.knobs.sync_pct as f64 / 100.0);
            }
            if sc.knobs.block_size > 0 {
                f.block_size(sc.knobs.block_size);
            }
        }
        if shared.len() >= 2 && sc.knobs.fs_seed % 2 == 0 {
            // the hosts take their turns in a seeded random order: each must still work on its own tree
            b.enable_random_order();
        }
        let mut sim = b.build();
        for (h, sh) in shared.iter().enumerate() {
            let sh = sh.clone();
            sim.host(format!("n{h}"), move || host_program(sh.clone()));
        }
        let mut consumed: Vec<usize> = vec![0; shared.len()];
        let crash_all = shared.len() >= 2 && sc.crash_all;
        for _step in 0..2000 {
            if let Err(e) = sim.step() {
                return Some(format!("Sim::step failed: {e}"));
            }
            for h in 0..shared.len() {
                // judge what the host did in this step, in order
                let evs: Vec<HostEvent> = shared[h].events.borrow()[consumed[h]..].to_vec();
                consumed[h] += evs.len();
                for ev in evs {
                    if !active[h] {
                        break;
                    }
                    match ev {
                        HostEvent::Op(i, ro) => {
                            let op = &shared[h].ops[i];
                            match judges[h].model_op(op) {
                                None => active[h] = false,
                                Some(mo) => {
                                    if !judges[h].check_op(i, op, &mo, &ro, &mut log) {
                                        active[h] = false;
                                    }
                                }
                            }
                        }
                        HostEvent::Sweep(rs) => {
                            if let Some((i, exp)) = pending_crash[h].take() {
                                if !judges[h].check_crash(i, exp, &rs, &mut log) {
                                    active[h] = false;
                                }
                            }
                        }
                        HostEvent::Error(e) => return Some(e),
                    }
                }
            }
            for h in 0..shared.len() {
                if active[h] && shared[h].want_crash.get() {
                    shared[h].want_crash.set(false);
                    let i = shared[h].cursor.get();
                    // ---- the fault: Sim::crash, then Sim::bounce ----
                    let exp = judges[h].crash_expect();
                    pending_crash[h] = Some((i, exp));
                    shared[h].cursor.set(i + 1);
                    if crash_all {
                        // one call that matches every host: the others lose their unsynced state as well, wherever
                        // their programs are (asleep inside an Advance, finished, or at their own crash point)
                        for h2 in 0..shared.len() {
                            if h2 == h {
                                continue;
                            }
                            let i2 = shared[h2].cursor.get();
                            let own = shared[h2].want_crash.get();
                            shared[h2].want_crash.set(false);
                            if active[h2] {
                                pending_crash[h2] = Some((i2, judges[h2].crash_expect()));
                            }
                            if own {
                                shared[h2].cursor.set(i2 + 1);
                            }
                        }
                        multi_crashes += 1;
                        let re = regex::Regex::new("^n[0-9]+$").expect("regex");
                        sim.crash(re.clone());
                        sim.bounce(re);
                    } else {
                        sim.crash(format!("n{h}"));
                        sim.bounce(format!("n{h}"));
                    }
                }
            }
            let all_done = (0..shared.len()).all(|h| !active[h] || (shared[h].cursor.get() >= shared[h].ops.len() && pending_crash[h].is_none() && !shared[h].want_crash.get()));
            if all_done {
                break;
            }
        }
        drop(sim);
        None
    });
    match res {
        Ok(Some(e)) => harness_error = Some(e),
        Ok(None) => {}
        Err(p) => harness_error = Some(format!("panic in the in-Sim driver: {p}")),
    }
    let mut rep = Report::default();
    for j in judges {
        rep.faults.merge(&j.rep.faults);
        rep.probes.merge(&j.rep.probes);
        if rep.violation.is_none() {
            rep.violation = j.violation;
        }
        rep.nontrivial |= j.nontrivial;
    }
    rep.probes.inc("in_sim_run");
    rep.faults.add("in_sim_one_crash_call_for_all_hosts", multi_crashes);
    if sc.finish_before_crash {
        rep.probes.inc("in_sim_host_finished_before_crash");
    }
    if shared.len() > 1 {
        rep.probes.inc("in_sim_two_hosts_same_paths");
        if sc.knobs.fs_seed % 2 == 0 {
            rep.probes.inc("in_sim_two_hosts_random_turn_order");
        }
    }
    rep.abstract_digest = log.abs_digest();
    rep.full_digest = log.full_digest();
    rep.log = log.lines;
    rep.harness_error = harness_error;
    rep.steps = sc.ops.len() as u64;
    rep
}
