//! C15 — ports and simulated addresses are never handed out twice while in use.
//!
//! Two scenario families. `Ports`: one or two hosts with an ephemeral range of 3-8 ports run a seeded
//! sequence of UDP binds, TCP listener binds (port 0 / fixed), connects (accepted / refused /
//! cancelled), writes, drops and crash+bounce, one operation at a time; the reference model is the
//! set of ports in use per host. `Names`: 1-600 host names registered and looked up in seeded
//! orders by name, literal address and regex, IPv4 and IPv6, from the `Sim` handle and from inside a
//! host.

use crate::core::prng::Rng;
use crate::core::{catch, Counters, Property, Report, Tier, Violation};
use crate::simkit::tcpprog::{host_ip, host_name, kind_name, loopback, wildcard};
use crate::simkit::{SharedLog, SimCfg};
use serde::{Deserialize, Serialize};
use std::cell::{Cell, RefCell};
use std::collections::{BTreeMap, BTreeSet};
use std::io;
use std::net::{IpAddr, SocketAddr};
use std::rc::Rc;
use std::time::Duration;
use tokio::io::AsyncWriteExt;
use turmoil::net::{TcpListener, TcpStream, UdpSocket};

pub const KF_O4: &str = "failed-connect-keeps-port-and-entry";
pub const KF_O11: &str = "stream-table-keyed-by-address-pair";

#[derive(Clone, Copy, Debug, Serialize, Deserialize, PartialEq, Eq)]
pub enum PortSpec {
    Zero,
    Fixed(u16),
}

#[derive(Clone, Copy, Debug, Serialize, Deserialize, PartialEq, Eq)]
pub enum CVia {
    Ip,
    Name,
    Loopback,
    /// an address no host of the simulation owns (only with ConnectRefused)
    Unowned,
}

/// Slot ids: the object created by op k is slot 2k; the accepted side of `Connect` k is slot 2k+1.
#[derive(Clone, Debug, Serialize, Deserialize, PartialEq)]
pub enum POp {
    UdpBind { host: usize, port: PortSpec, localhost: bool },
    TcpBind { host: usize, port: PortSpec, localhost: bool },
    /// connect from `host` to the listener in slot `lslot`; the listener's host accepts
    Connect { host: usize, lslot: usize, via: CVia },
    /// connect to a port of `to` nobody listens on
    ConnectRefused { host: usize, to: usize, via: CVia },
    /// connect to the listener in `lslot` under a timeout while nobody accepts
    ConnectCancelled { host: usize, lslot: usize, via: CVia, ticks: u16 },
    /// write one byte on the stream in `slot`
    Write { slot: usize },
    Drop { slot: usize },
    CrashBounce { host: usize, down: u16 },
    Sleep { ticks: u16 },
}

#[derive(Clone, Debug, Serialize, Deserialize, PartialEq)]
pub struct PortsSc {
    pub cfg: SimCfg,
    /// generated with the triggers of O11 (address-pair keyed stream table) avoided
    pub guarded: bool,
    pub hosts: usize,
    pub ops: Vec<POp>,
}

#[derive(Clone, Debug, Serialize, Deserialize, PartialEq)]
pub enum NOp {
    /// Sim::lookup(name)
    Lookup(u16),
    /// turmoil::lookup(name) from inside the prober host
    LookupInside(u16),
    /// Sim::reverse_lookup(addr of name) — only names looked up before
    Reverse(u16),
    ReverseInside(u16),
    /// Sim::reverse_lookup of an address the simulated DNS may never have handed out: loopback, other
    /// prefixes, small host numbers (the low bits of the n-th name's address under another prefix)
    ReverseLiteral(u32),
    /// literal address (as IpAddr / as string), built from the value
    LiteralIp(u32),
    LiteralStr(u32),
    /// lookup_many(regex #i over the name universe)
    Regex(u8),
    RegexInside(u8),
    /// register the name as a host / client of the simulation
    RegisterHost(u16),
    /// (name, port) resolved through ToSocketAddrs inside the prober (lookup_host)
    SocketAddr(u16),
    /// lookup storm: lookup_many(regex #i) `times` times in a row (every result checked)
    StormRegex { regex: u8, times: u16 },
    /// lookup storm: `count` lookups by name of names registered so far (cycling through them in
    /// registration order, continuing where the previous storm stopped)
    StormNames { count: u16 },
    /// a link fault addressed by name between the prober and the k-th registered host
    /// (0 hold, 1 release, 2 partition, 3 repair): these calls resolve names too
    LinkByName { host: u8, kind: u8 },
}

#[derive(Clone, Debug, Serialize, Deserialize, PartialEq)]
pub struct NamesSc {
    pub cfg: SimCfg,
    /// size of the name universe
    pub names: u16,
    pub ops: Vec<NOp>,
}

#[derive(Clone, Debug, Serialize, Deserialize, PartialEq)]
pub enum Scenario {
    Ports(PortsSc),
    Names(NamesSc),
}

pub struct C15;

const DEAD_PORT: u16 = 9;
const FIXED_OUTSIDE: [u16; 3] = [7000, 7001, 80];

// ------------------------------------------------------------------------------------------------
// generator-side bookkeeping (what objects exist; an upper bound of the ephemeral ports in use)

#[derive(Clone, Debug, PartialEq)]
enum GKind {
    Udp,
    Listener { localhost: bool },
    /// connector side / accepted side of connection `conn` (= op index)
    Stream { conn: usize, accepted: bool },
}

#[derive(Clone, Debug)]
struct GObj {
    slot: usize,
    host: usize,
    kind: GKind,
    /// may occupy a port of the ephemeral range
    in_range: bool,
}

fn range_of(sc: &PortsSc) -> (u16, u16) {
    sc.cfg.ephemeral.unwrap_or((49152, 65535))
}

/// Replays the op list on the bookkeeping model. Returns the live objects after op `upto` (exclusive)
/// and, per op index, flags describing known-finding triggers.
struct GState {
    objs: Vec<GObj>,
    /// a failed or cancelled connect happened on host h (O4)
    failed_connect: Vec<bool>,
    /// connections whose connector side is gone while the accepted side is alive, or on which a
    /// write was issued after the peer side was gone (O11)
    half_dead: bool,
    /// data was written on a stream (resets become possible), or a stream end went away without a
    /// pause long enough for its FIN / the answering RST to leave the network before the port can
    /// be used again (O11: segments of the old connection hit a new one on the same address pair)
    stale_possible: bool,
}

fn settle_ticks(sc: &PortsSc) -> u16 {
    2 * sc.cfg.max_latency_ticks() as u16 + 3
}

fn gstate(sc: &PortsSc, upto: usize) -> GState {
    let (lo, hi) = range_of(sc);
    let mut st = GState { objs: Vec::new(), failed_connect: vec![false; sc.hosts], half_dead: false, stale_possible: false };
    let settle = settle_ticks(sc);
    for (k, op) in sc.ops.iter().enumerate().take(upto) {
        let settled_after = matches!(sc.ops.get(k + 1), Some(POp::Sleep { ticks }) if *ticks >= settle) || k + 1 == sc.ops.len();
        let streams_before = st.objs.iter().filter(|o| matches!(o.kind, GKind::Stream { .. })).count();
        match op {
            POp::UdpBind { host, port, .. } => {
                let in_range = match port {
                    PortSpec::Zero => true,
                    PortSpec::Fixed(p) => *p >= lo && *p <= hi,
                };
                st.objs.push(GObj { slot: 2 * k, host: *host, kind: GKind::Udp, in_range });
            }
            POp::TcpBind { host, port, localhost } => {
                let in_range = match port {
                    PortSpec::Zero => true,
                    PortSpec::Fixed(p) => *p >= lo && *p <= hi,
                };
                // an explicit listener bind may land on the local port of a live outgoing stream
                // (the property allows it); a later connection to that listener can then form the
                // same address pair as the old stream (O11)
                if matches!(port, PortSpec::Fixed(_)) && in_range && st.objs.iter().any(|o| o.host == *host && matches!(o.kind, GKind::Stream { accepted: false, .. })) {
                    st.half_dead = true;
                }
                st.objs.push(GObj { slot: 2 * k, host: *host, kind: GKind::Listener { localhost: *localhost }, in_range });
            }
            POp::Connect { host, lslot, .. } => {
                if let Some(l) = st.objs.iter().find(|o| o.slot == *lslot).cloned() {
                    st.objs.push(GObj { slot: 2 * k, host: *host, kind: GKind::Stream { conn: k, accepted: false }, in_range: true });
                    // the accepted side keeps occupying the listener's port after the listener is gone
                    st.objs.push(GObj { slot: 2 * k + 1, host: l.host, kind: GKind::Stream { conn: k, accepted: true }, in_range: l.in_range });
                }
            }
            POp::ConnectRefused { host, .. } => st.failed_connect[*host] = true,
            POp::ConnectCancelled { host, .. } => {
                st.failed_connect[*host] = true;
                // the abandoned connect answers with a RST that may meet a later connection on the same pair
                if !settled_after {
                    st.stale_possible = true;
                }
            }
            POp::Write { slot } => {
                if st.objs.iter().any(|o| o.slot == *slot && matches!(o.kind, GKind::Stream { .. })) {
                    st.stale_possible = true;
                }
                if let Some(o) = st.objs.iter().find(|o| o.slot == *slot) {
                    if let GKind::Stream { conn, accepted } = o.kind {
                        let peer_alive = st.objs.iter().any(|p| p.kind == GKind::Stream { conn, accepted: !accepted });
                        if !peer_alive {
                            st.half_dead = true;
                        }
                    }
                }
            }
            POp::Drop { slot } => {
                if let Some(i) = st.objs.iter().position(|o| o.slot == *slot) {
                    let o = st.objs.remove(i);
                    if let GKind::Stream { conn, accepted: false } = o.kind {
                        if st.objs.iter().any(|p| p.kind == GKind::Stream { conn, accepted: true }) {
                            st.half_dead = true;
                        }
                    }
                }
            }
            POp::CrashBounce { host, .. } => {
                let gone: Vec<GObj> = st.objs.iter().filter(|o| o.host == *host).cloned().collect();
                st.objs.retain(|o| o.host != *host);
                for o in gone {
                    if let GKind::Stream { conn, accepted: false } = o.kind {
                        if st.objs.iter().any(|p| p.kind == GKind::Stream { conn, accepted: true }) {
                            st.half_dead = true;
                        }
                    }
                }
            }
            POp::Sleep { .. } => {}
        }
        let streams_after = st.objs.iter().filter(|o| matches!(o.kind, GKind::Stream { .. })).count();
        if streams_after < streams_before && !settled_after {
            st.stale_possible = true;
        }
    }
    st
}

pub fn o4_exposed(sc: &PortsSc) -> bool {
    gstate(sc, sc.ops.len()).failed_connect.iter().any(|b| *b)
}

pub fn o11_exposed(sc: &PortsSc) -> bool {
    let g = gstate(sc, sc.ops.len());
    g.half_dead || g.stale_possible
}

fn gen_ports(rng: &mut Rng) -> PortsSc {
    let guarded = !rng.chance(1, 20);
    let tick_ms = *rng.pick(&[1u64, 1, 2, 5]);
    let lat_ticks = rng.range(0, 3);
    let size = rng.range(3, 8) as u16;
    let lo = *rng.pick(&[49152u16, 49152, 1024, 65000, 65535 - 7]);
    let hi = lo + (size - 1);
    let cfg = SimCfg {
        rng_seed: rng.next_u64(),
        epoch_s: 1_000_000_000 + rng.below(1_000_000_000),
        epoch_sub_us: 0,
        tick_us: tick_ms * 1000,
        min_latency_us: lat_ticks * tick_ms * 1000,
        max_latency_us: lat_ticks * tick_ms * 1000,
        ephemeral: Some((lo, hi)),
        ipv6: rng.chance(1, 4),
        random_order: rng.chance(1, 3),
        duration_ms: 3_600_000,
        ..SimCfg::default()
    };
    let hosts = rng.usize(1, 2);
    let n = rng.usize(4, 40);
    let mut sc = PortsSc { cfg, guarded, hosts, ops: Vec::new() };
    let fixed_pool: Vec<u16> = (lo..=hi).chain(FIXED_OUTSIDE).collect();
    while sc.ops.len() < n {
        let st = gstate(&sc, sc.ops.len());
        let used = |h: usize| st.objs.iter().filter(|o| o.host == h && o.in_range).count();
        let host = rng.usize(0, hosts - 1);
        let room = used(host) < size as usize;
        let listeners: Vec<&GObj> = st.objs.iter().filter(|o| matches!(o.kind, GKind::Listener { .. })).collect();
        let streams: Vec<&GObj> = st.objs.iter().filter(|o| matches!(o.kind, GKind::Stream { .. })).collect();
        if !guarded && !streams.is_empty() && rng.chance(1, 8) {
            let s = *rng.pick(&streams);
            sc.ops.push(POp::Write { slot: s.slot });
            continue;
        }
        let op = match rng.below(20) {
            0..=2 => {
                let port = if rng.chance(1, 2) { PortSpec::Zero } else { PortSpec::Fixed(*rng.pick(&fixed_pool)) };
                if (port == PortSpec::Zero || matches!(port, PortSpec::Fixed(p) if p >= lo && p <= hi)) && !room {
                    continue;
                }
                POp::UdpBind { host, port, localhost: rng.chance(1, 3) }
            }
            3..=5 => {
                let port = if rng.chance(1, 2) { PortSpec::Zero } else { PortSpec::Fixed(*rng.pick(&fixed_pool)) };
                if (port == PortSpec::Zero || matches!(port, PortSpec::Fixed(p) if p >= lo && p <= hi)) && !room {
                    continue;
                }
                if guarded && matches!(port, PortSpec::Fixed(p) if p >= lo && p <= hi) && st.objs.iter().any(|o| o.host == host && matches!(o.kind, GKind::Stream { accepted: false, .. })) {
                    continue;
                }
                POp::TcpBind { host, port, localhost: rng.chance(1, 4) }
            }
            6..=10 => {
                if listeners.is_empty() || !room {
                    continue;
                }
                let l = *rng.pick(&listeners);
                let GKind::Listener { localhost } = l.kind else { continue };
                let via = if l.host == host {
                    if localhost || rng.chance(1, 2) {
                        CVia::Loopback
                    } else {
                        CVia::Ip
                    }
                } else {
                    if localhost {
                        continue;
                    }
                    *rng.pick(&[CVia::Ip, CVia::Name])
                };
                if rng.chance(1, 6) {
                    sc.ops.push(POp::ConnectCancelled { host, lslot: l.slot, via, ticks: rng.range(1, 4) as u16 });
                    if guarded {
                        // the abandoned connect sends a RST: let it leave the network (O11 guard)
                        sc.ops.push(POp::Sleep { ticks: settle_ticks(&sc) });
                    }
                    continue;
                } else {
                    POp::Connect { host, lslot: l.slot, via }
                }
            }
            11 => {
                if !room {
                    continue;
                }
                let to = rng.usize(0, hosts - 1);
                POp::ConnectRefused { host, to, via: if rng.chance(1, 4) { CVia::Unowned } else if to == host { *rng.pick(&[CVia::Ip, CVia::Loopback]) } else { CVia::Ip } }
            }
            12 => {
                if streams.is_empty() {
                    continue;
                }
                let s = *rng.pick(&streams);
                if guarded {
                    continue;
                }
                POp::Write { slot: s.slot }
            }
            13..=17 => {
                if st.objs.is_empty() {
                    continue;
                }
                let o = *rng.pick(&st.objs.iter().collect::<Vec<_>>());
                if guarded {
                    // never leave the accepted side alive behind a dropped connector side
                    if let GKind::Stream { conn, accepted: false } = o.kind {
                        if let Some(p) = st.objs.iter().find(|p| p.kind == GKind::Stream { conn, accepted: true }) {
                            sc.ops.push(POp::Drop { slot: p.slot });
                            sc.ops.push(POp::Sleep { ticks: settle_ticks(&sc) });
                        }
                    }
                    if matches!(o.kind, GKind::Stream { .. }) {
                        // ... and let the FIN / RST of the old connection leave the network
                        sc.ops.push(POp::Drop { slot: o.slot });
                        sc.ops.push(POp::Sleep { ticks: settle_ticks(&sc) });
                        continue;
                    }
                }
                POp::Drop { slot: o.slot }
            }
            18 => {
                if guarded {
                    for o in st.objs.iter().filter(|o| o.host == host) {
                        if let GKind::Stream { conn, accepted: false } = o.kind {
                            if let Some(p) = st.objs.iter().find(|p| p.host != host && p.kind == GKind::Stream { conn, accepted: true }) {
                                sc.ops.push(POp::Drop { slot: p.slot });
                                sc.ops.push(POp::Sleep { ticks: settle_ticks(&sc) });
                            }
                        }
                    }
                    sc.ops.push(POp::CrashBounce { host, down: rng.range(0, 3) as u16 });
                    sc.ops.push(POp::Sleep { ticks: settle_ticks(&sc) });
                    continue;
                }
                POp::CrashBounce { host, down: rng.range(0, 3) as u16 }
            }
            _ => POp::Sleep { ticks: rng.range(1, 4) as u16 },
        };
        sc.ops.push(op);
    }
    sc
}

// (the last three are plain host names: as a pattern such a text also matches every name that contains it)
const REGEXES: [&str; 10] = ["^n1.*$", "n[0-9]$", ".*", "^$", "^srv-[0-9]+$", "x", "^(n2|n3|srv-4)$", "n2", "n13", "srv-5"];

pub fn name_of(i: u16) -> String {
    match i % 5 {
        0 => format!("srv-{i}"),
        1 => format!("a.b{i}.example"),
        _ => format!("n{i}"),
    }
}

/// Long histories of repeated lookups of known names, then new registrations: the address
/// iterator must not be touched by lookups of names that already have an address.
fn gen_storm(rng: &mut Rng) -> NamesSc {
    let cfg = SimCfg { rng_seed: rng.next_u64(), epoch_s: 1_000_000_000 + rng.below(1_000_000_000), ipv6: rng.chance(1, 5), duration_ms: 3_600_000, ..SimCfg::default() };
    let first = *rng.pick(&[40u16, 100, 255, 300, 300, 500]);
    let mut ops: Vec<NOp> = (0..first).map(NOp::Lookup).collect();
    for i in (1..ops.len()).rev() {
        ops.swap(i, rng.usize(0, i));
    }
    let hosts = rng.usize(0, 2);
    for h in 0..hosts {
        ops.push(NOp::RegisterHost(first + h as u16));
    }
    // 66 000 - 80 000 lookups of known names in total. They come in small portions (at most half
    // the size of the initial, densely numbered block of names) and every portion is followed by
    // the registration of a new name, so that wherever an address counter disturbed by lookups
    // ends up, some registration falls into territory that is already taken.
    let target = rng.range(66_000, 80_000);
    let mut burned = 0u64;
    let mut next_new = first + hosts as u16;
    let mut registered = first as u64 + hosts as u64 + 1;
    while burned < target {
        match rng.below(20) {
            0..=13 => {
                let count = rng.range((first as u64 / 8).max(1), (first as u64 / 2).max(2));
                ops.push(NOp::StormNames { count: count as u16 });
                burned += count;
            }
            14 | 15 => {
                // regexes that match a few names
                ops.push(NOp::StormRegex { regex: *rng.pick(&[0u8, 1, 4, 6]), times: rng.range(1, 4) as u16 });
                burned += registered / 10;
            }
            16 => {
                // ".*" matches every registered name
                ops.push(NOp::StormRegex { regex: 2, times: 1 });
                burned += registered;
            }
            17 if hosts > 0 => {
                ops.push(NOp::LinkByName { host: rng.below(hosts as u64) as u8, kind: rng.below(4) as u8 });
                burned += 2;
            }
            _ => {
                ops.push(NOp::Reverse(rng.below(first as u64) as u16));
                ops.push(NOp::LookupInside(rng.below(first as u64) as u16));
                burned += 1;
            }
        }
        ops.push(if rng.chance(1, 8) { NOp::LookupInside(next_new) } else { NOp::Lookup(next_new) });
        if rng.chance(1, 4) {
            ops.push(NOp::Reverse(next_new));
        }
        if rng.chance(1, 8) {
            ops.push(NOp::Reverse(rng.below(first as u64) as u16));
        }
        next_new += 1;
        registered += 1;
    }
    NamesSc { cfg, names: next_new, ops }
}

fn gen_names(rng: &mut Rng) -> NamesSc {
    let cfg = SimCfg { rng_seed: rng.next_u64(), epoch_s: 1_000_000_000 + rng.below(1_000_000_000), ipv6: rng.chance(1, 2), duration_ms: 3_600_000, ..SimCfg::default() };
    let names = *rng.pick(&[1u16, 2, 3, 10, 40, 255, 256, 257, 300, 600]);
    let nops = (names as usize * rng.usize(1, 3)).clamp(4, 900);
    let mut ops = Vec::new();
    let mut hosts = 0;
    // either sweep the universe in a seeded order (all names get registered) or sample it
    let sweep = rng.chance(1, 2);
    let mut order: Vec<u16> = (0..names).collect();
    for i in (1..order.len()).rev() {
        order.swap(i, rng.usize(0, i));
    }
    for k in 0..nops {
        let name = if sweep && k < order.len() { order[k] } else { rng.below(names as u64) as u16 };
        ops.push(match rng.below(24) {
            0..=8 => NOp::Lookup(name),
            9..=11 => NOp::LookupInside(name),
            12..=14 => NOp::Reverse(name),
            15 => NOp::ReverseInside(name),
            16 if rng.bool() => NOp::ReverseLiteral(rng.next_u64() as u32),
            16 => NOp::LiteralIp(rng.next_u64() as u32),
            17 => NOp::LiteralStr(rng.next_u64() as u32),
            18 | 19 => NOp::Regex(rng.below(REGEXES.len() as u64) as u8),
            20 => NOp::RegexInside(rng.below(REGEXES.len() as u64) as u8),
            21 if hosts < 3 => {
                hosts += 1;
                NOp::RegisterHost(name)
            }
            22 => NOp::SocketAddr(name),
            _ => NOp::Lookup(name),
        });
    }
    NamesSc { cfg, names, ops }
}

// ------------------------------------------------------------------------------------------------
// ports: run-time

enum Obj {
    Udp(UdpSocket),
    Listener(TcpListener),
    Stream(TcpStream),
}

/// What one participant of the current op reports.
#[derive(Clone, Debug)]
enum Part {
    Bound { port: u16 },
    BindErr { kind: io::ErrorKind },
    Connected { local: SocketAddr, peer: SocketAddr },
    ConnErr { kind: io::ErrorKind },
    Cancelled,
    Accepted { local: SocketAddr, peer: SocketAddr },
    AcceptErr,
    Wrote { ok: bool },
    Dropped { existed: bool },
    /// the op refers to an object this host does not hold (any more)
    Skipped,
}

#[derive(Clone)]
struct PSh {
    log: SharedLog,
    cur: Rc<Cell<usize>>,
    /// (op index, role, result); role 0 = owner / connector, 1 = acceptor
    parts: Rc<RefCell<Vec<(usize, u8, Part)>>>,
    /// which roles of the current op have been started by some worker incarnation
    started: Rc<Cell<u8>>,
    /// host of every live slot, as the controller's model knows it
    slot_host: Rc<RefCell<BTreeMap<usize, usize>>>,
    /// port of every live listener slot (filled by the controller from the bind results; a
    /// connector on a real network would know the port it dials)
    lports: Rc<RefCell<BTreeMap<usize, u16>>>,
    tick: Duration,
    ipv6: bool,
}

fn target_addr(sh: &PSh, to: usize, via: CVia, port: u16) -> (Option<String>, SocketAddr) {
    match via {
        CVia::Ip => (None, SocketAddr::new(host_ip(to, sh.ipv6), port)),
        CVia::Name => (Some(host_name(to)), SocketAddr::new(host_ip(to, sh.ipv6), port)),
        CVia::Loopback => (None, SocketAddr::new(loopback(sh.ipv6), port)),
        CVia::Unowned => (None, SocketAddr::new(if sh.ipv6 { "fe80::9:9".parse().unwrap() } else { "192.168.9.9".parse().unwrap() }, port)),
    }
}

async fn do_connect(sh: &PSh, to: usize, via: CVia, port: u16) -> io::Result<TcpStream> {
    match target_addr(sh, to, via, port) {
        (Some(name), a) => TcpStream::connect((name, a.port())).await,
        (None, a) => TcpStream::connect(a).await,
    }
}

async fn worker(sh: PSh, me: usize, sc: Rc<PortsSc>) -> turmoil::Result {
    let mut objs: BTreeMap<usize, Obj> = BTreeMap::new();
    // listener ports are needed by connectors on other hosts: published through the model's log
    loop {
        let k = sh.cur.get();
        if k >= sc.ops.len() {
            std::future::pending::<()>().await;
        }
        let op = &sc.ops[k];
        let started = sh.started.get();
        let post = |role: u8, p: Part| sh.parts.borrow_mut().push((k, role, p));
        let ip = |localhost: bool| if localhost { loopback(sh.ipv6) } else { wildcard(sh.ipv6) };
        match op {
            POp::UdpBind { host, port, localhost } if *host == me && started & 1 == 0 => {
                sh.started.set(started | 1);
                let p = match port {
                    PortSpec::Zero => 0,
                    PortSpec::Fixed(p) => *p,
                };
                match UdpSocket::bind((ip(*localhost), p)).await {
                    Ok(s) => {
                        let port = s.local_addr().map(|a| a.port()).unwrap_or(0);
                        objs.insert(2 * k, Obj::Udp(s));
                        post(0, Part::Bound { port });
                    }
                    Err(e) => post(0, Part::BindErr { kind: e.kind() }),
                }
            }
            POp::TcpBind { host, port, localhost } if *host == me && started & 1 == 0 => {
                sh.started.set(started | 1);
                let p = match port {
                    PortSpec::Zero => 0,
                    PortSpec::Fixed(p) => *p,
                };
                match TcpListener::bind((ip(*localhost), p)).await {
                    Ok(s) => {
                        let port = s.local_addr().map(|a| a.port()).unwrap_or(0);
                        objs.insert(2 * k, Obj::Listener(s));
                        post(0, Part::Bound { port });
                    }
                    Err(e) => post(0, Part::BindErr { kind: e.kind() }),
                }
            }
            POp::Connect { host, lslot, via } => {
                let lhost = sh.slot_host.borrow().get(lslot).copied();
                let lport = sh.lports.borrow().get(lslot).copied();
                let (Some(lhost), Some(lport)) = (lhost, lport) else {
                    if *host == me && started & 1 == 0 {
                        sh.started.set(started | 3);
                        post(0, Part::Skipped);
                        post(1, Part::Skipped);
                    }
                    tokio::time::sleep(sh.tick).await;
                    continue;
                };
                let i_connect = *host == me && started & 1 == 0;
                let i_accept = lhost == me && started & 2 == 0;
                if i_connect && i_accept {
                    sh.started.set(started | 3);
                    let Some(Obj::Listener(l)) = objs.get(lslot) else {
                        post(0, Part::Skipped);
                        post(1, Part::Skipped);
                        continue;
                    };
                    let (c, a) = tokio::join!(do_connect(&sh, lhost, *via, lport), l.accept());
                    match a {
                        Ok((s, _)) => {
                            post(1, Part::Accepted { local: s.local_addr().unwrap(), peer: s.peer_addr().unwrap() });
                            objs.insert(2 * k + 1, Obj::Stream(s));
                        }
                        Err(_) => post(1, Part::AcceptErr),
                    }
                    match c {
                        Ok(s) => {
                            post(0, Part::Connected { local: s.local_addr().unwrap(), peer: s.peer_addr().unwrap() });
                            objs.insert(2 * k, Obj::Stream(s));
                        }
                        Err(e) => post(0, Part::ConnErr { kind: e.kind() }),
                    }
                } else if i_connect {
                    sh.started.set(started | 1);
                    match do_connect(&sh, lhost, *via, lport).await {
                        Ok(s) => {
                            post(0, Part::Connected { local: s.local_addr().unwrap(), peer: s.peer_addr().unwrap() });
                            objs.insert(2 * k, Obj::Stream(s));
                        }
                        Err(e) => post(0, Part::ConnErr { kind: e.kind() }),
                    }
                } else if i_accept {
                    sh.started.set(started | 2);
                    let Some(Obj::Listener(l)) = objs.get(lslot) else {
                        post(1, Part::Skipped);
                        continue;
                    };
                    match l.accept().await {
                        Ok((s, _)) => {
                            post(1, Part::Accepted { local: s.local_addr().unwrap(), peer: s.peer_addr().unwrap() });
                            objs.insert(2 * k + 1, Obj::Stream(s));
                        }
                        Err(_) => post(1, Part::AcceptErr),
                    }
                } else {
                    tokio::time::sleep(sh.tick).await;
                }
            }
            POp::ConnectRefused { host, to, via } if *host == me && started & 1 == 0 => {
                sh.started.set(started | 1);
                match do_connect(&sh, *to, *via, DEAD_PORT).await {
                    Ok(s) => {
                        post(0, Part::Connected { local: s.local_addr().unwrap(), peer: s.peer_addr().unwrap() });
                        objs.insert(2 * k, Obj::Stream(s));
                    }
                    Err(e) => post(0, Part::ConnErr { kind: e.kind() }),
                }
            }
            POp::ConnectCancelled { host, lslot, via, ticks } if *host == me && started & 1 == 0 => {
                sh.started.set(started | 1);
                let lhost = sh.slot_host.borrow().get(lslot).copied();
                let lport = sh.lports.borrow().get(lslot).copied();
                let (Some(lhost), Some(lport)) = (lhost, lport) else {
                    post(0, Part::Skipped);
                    continue;
                };
                match tokio::time::timeout(sh.tick * *ticks as u32, do_connect(&sh, lhost, *via, lport)).await {
                    Err(_) => post(0, Part::Cancelled),
                    Ok(Ok(s)) => {
                        post(0, Part::Connected { local: s.local_addr().unwrap(), peer: s.peer_addr().unwrap() });
                        objs.insert(2 * k, Obj::Stream(s));
                    }
                    Ok(Err(e)) => post(0, Part::ConnErr { kind: e.kind() }),
                }
            }
            POp::Write { slot } if sh.slot_host.borrow().get(slot) == Some(&me) && started & 1 == 0 => {
                sh.started.set(started | 1);
                match objs.get_mut(slot) {
                    Some(Obj::Stream(s)) => {
                        let r = s.write_all(&[0x5a]).await;
                        post(0, Part::Wrote { ok: r.is_ok() });
                    }
                    _ => post(0, Part::Skipped),
                }
            }
            POp::Drop { slot } if sh.slot_host.borrow().get(slot) == Some(&me) && started & 1 == 0 => {
                sh.started.set(started | 1);
                let existed = objs.remove(slot).is_some();
                post(0, Part::Dropped { existed });
            }
            _ => tokio::time::sleep(sh.tick).await,
        }
    }
}

// ------------------------------------------------------------------------------------------------
// ports: reference model, controller, verdict

#[derive(Clone, Debug, PartialEq)]
enum MKind {
    Udp { port: u16 },
    Listener { port: u16 },
    Stream { port: u16, conn: usize, accepted: bool },
}

#[derive(Clone, Debug)]
struct MObj {
    host: usize,
    kind: MKind,
    /// the peer wrote a byte nobody reads: dropping this object resets the peer
    unread: bool,
    /// the stream may have been reset (its table entry is removed when the RST arrives): it no
    /// longer counts as a live stream, but its entry may still be there for a few steps
    maybe_reset: bool,
}

impl MObj {
    fn new(host: usize, kind: MKind) -> MObj {
        MObj { host, kind, unread: false, maybe_reset: false }
    }
}

#[derive(Default)]
struct Model {
    objs: BTreeMap<usize, MObj>,
}

impl Model {
    fn port_of(k: &MKind) -> u16 {
        match k {
            MKind::Udp { port } | MKind::Listener { port } | MKind::Stream { port, .. } => *port,
        }
    }
    /// ports in use on host h by either protocol: UDP binds, TCP binds, local ports of live streams
    fn in_use(&self, h: usize) -> BTreeSet<u16> {
        self.objs.values().filter(|o| o.host == h && !o.maybe_reset).map(|o| Self::port_of(&o.kind)).collect()
    }
    /// including streams that may already have been reset
    fn in_use_all(&self, h: usize) -> BTreeSet<u16> {
        self.objs.values().filter(|o| o.host == h).map(|o| Self::port_of(&o.kind)).collect()
    }
    fn udp(&self, h: usize) -> BTreeSet<u16> {
        self.objs.values().filter(|o| o.host == h).filter_map(|o| if let MKind::Udp { port } = o.kind { Some(port) } else { None }).collect()
    }
    fn tcpl(&self, h: usize) -> BTreeSet<u16> {
        self.objs.values().filter(|o| o.host == h).filter_map(|o| if let MKind::Listener { port } = o.kind { Some(port) } else { None }).collect()
    }
    fn streams(&self, h: usize) -> usize {
        self.objs.values().filter(|o| o.host == h && matches!(o.kind, MKind::Stream { .. })).count()
    }
    fn streams_certain(&self, h: usize) -> usize {
        self.objs.values().filter(|o| o.host == h && !o.maybe_reset && matches!(o.kind, MKind::Stream { .. })).count()
    }
    fn peer_slot(&self, slot: usize) -> Option<usize> {
        let MKind::Stream { conn, accepted, .. } = self.objs.get(&slot)?.kind else { return None };
        self.objs.iter().find(|(_, p)| matches!(p.kind, MKind::Stream { conn: c2, accepted: a2, .. } if c2 == conn && a2 != accepted)).map(|(s, _)| *s)
    }
    /// the object in `slot` goes away (drop or crash): a peer that wrote unread data to it is reset
    fn remove(&mut self, slot: usize) -> Option<MObj> {
        let peer = self.peer_slot(slot);
        let o = self.objs.remove(&slot)?;
        if o.unread {
            if let Some(p) = peer.and_then(|p| self.objs.get_mut(&p)) {
                p.maybe_reset = true;
            }
        }
        Some(o)
    }
    /// ports of the range that no object holds, not even a possibly reset stream
    fn free(&self, h: usize, lo: u16, hi: u16) -> usize {
        let u = self.in_use_all(h);
        (lo..=hi).filter(|p| !u.contains(p)).count()
    }
    fn holder(&self, h: usize, p: u16) -> String {
        self.objs.iter().filter(|(_, o)| o.host == h && Self::port_of(&o.kind) == p).map(|(s, o)| format!("slot {s} {:?}", o.kind)).collect::<Vec<_>>().join(", ")
    }
}

fn op_host(op: &POp, slot_host: &BTreeMap<usize, usize>) -> Option<usize> {
    match op {
        POp::UdpBind { host, .. } | POp::TcpBind { host, .. } | POp::Connect { host, .. } | POp::ConnectRefused { host, .. } | POp::ConnectCancelled { host, .. } | POp::CrashBounce { host, .. } => Some(*host),
        POp::Write { slot } | POp::Drop { slot } => slot_host.get(slot).copied(),
        POp::Sleep { .. } => None,
    }
}

fn run_ports(sc: &PortsSc, keep: bool) -> Report {
    let (lo, hi) = range_of(sc);
    let sh = PSh {
        log: SharedLog::new(keep),
        cur: Rc::new(Cell::new(0)),
        parts: Rc::new(RefCell::new(Vec::new())),
        started: Rc::new(Cell::new(0)),
        slot_host: Rc::new(RefCell::new(BTreeMap::new())),
        lports: Rc::new(RefCell::new(BTreeMap::new())),
        tick: sc.cfg.tick(),
        ipv6: sc.cfg.ipv6,
    };
    let scr = Rc::new(sc.clone());
    let model = RefCell::new(Model::default());
    let mut violation: Option<Violation> = None;
    let mut probes = Counters::default();
    let mut faults = Counters::default();
    let mut steps = 0u64;
    let lat = sc.cfg.max_latency_ticks();
    let op_limit = 2 * lat + 12;
    let mut nontrivial = false;
    let cur_op: Cell<usize> = Cell::new(0);
    let gflags = gstate(sc, sc.ops.len());
    let _ = &gflags;

    let res = catch(|| {
        let mut sim = sc.cfg.build();
        for h in 0..sc.hosts {
            let (shc, scc) = (sh.clone(), scr.clone());
            sim.host(host_name(h), move || worker(shc.clone(), h, scc.clone()));
        }
        let mut last_eph: Vec<Option<u16>> = vec![None; sc.hosts];
        let mut ever_used: Vec<BTreeSet<u16>> = vec![BTreeSet::new(); sc.hosts];
        let mut crashed_since: Vec<bool> = vec![false; sc.hosts];
        let mut k = 0usize;
        let mut op_steps = 0u64;
        let step = |sim: &mut turmoil::Sim<'_>, steps: &mut u64| -> Result<(), String> {
            *steps += 1;
            sim.step().map(|_| ()).map_err(|e| e.to_string())
        };
        let hook_check = |sim: &turmoil::Sim<'_>, m: &Model, after: &str| -> Option<Violation> {
            for h in 0..sc.hosts {
                let c = sim.verif_host_table_counts(host_name(h));
                let (u, t, s, live) = (m.udp(h).len(), m.tcpl(h).len(), m.streams(h), m.streams_certain(h));
                if c.udp_binds != u || c.tcp_binds != t {
                    return Some(Violation::new("BindTableMismatch", format!("after {after}: host h{h} holds {} UDP and {} TCP binds, the live sockets/listeners are {u} and {t}", c.udp_binds, c.tcp_binds)));
                }
                if c.tcp_streams > s {
                    return Some(Violation::new("StreamEntryLeak", format!("[h={h}] after {after}: the stream table of h{h} has {} entries but only {s} stream objects are alive on it (a port stays occupied by nothing)", c.tcp_streams)));
                }
                if c.tcp_streams < live {
                    return Some(Violation::new("StreamEntryMissing", format!("after {after}: {live} stream objects are alive on h{h} (none of them can have been reset) but its stream table has only {} entries (the ports of live streams look free to the allocator)", c.tcp_streams)));
                }
            }
            None
        };
        'run: while k < sc.ops.len() {
            cur_op.set(k);
            let op = &sc.ops[k];
            // --- operations the controller performs (or skips) itself ---
            match op {
                POp::CrashBounce { host, down } if *host < sc.hosts => {
                    sim.crash(host_name(*host));
                    faults.inc("crash");
                    sh.log.ev(format!("#{k} crash h{host}"));
                    sh.log.tag("crash");
                    {
                        let mut m = model.borrow_mut();
                        let dead: Vec<usize> = m.objs.iter().filter(|(_, o)| o.host == *host).map(|(s, _)| *s).collect();
                        for s in dead {
                            m.remove(s);
                            sh.slot_host.borrow_mut().remove(&s);
                            sh.lports.borrow_mut().remove(&s);
                        }
                    }
                    crashed_since[*host] = true;
                    if let Some(v) = hook_check(&sim, &model.borrow(), &format!("op #{k} crash of h{host}")) {
                        violation = Some(v);
                        break 'run;
                    }
                    for _ in 0..*down {
                        if let Err(e) = step(&mut sim, &mut steps) {
                            violation = Some(Violation::new("StepError", e));
                            break 'run;
                        }
                    }
                    sim.bounce(host_name(*host));
                    faults.inc("bounce");
                    sh.log.ev(format!("#{k} bounce h{host} after {down} steps"));
                    k += 1;
                    sh.cur.set(k);
                    sh.started.set(0);
                    continue;
                }
                POp::Sleep { ticks } => {
                    for _ in 0..*ticks {
                        if let Err(e) = step(&mut sim, &mut steps) {
                            violation = Some(Violation::new("StepError", e));
                            break 'run;
                        }
                    }
                    k += 1;
                    sh.cur.set(k);
                    continue;
                }
                _ => {}
            }
            let dead_ref = match op {
                POp::Write { slot } | POp::Drop { slot } => !model.borrow().objs.contains_key(slot),
                POp::Connect { lslot, .. } | POp::ConnectCancelled { lslot, .. } => !matches!(model.borrow().objs.get(lslot), Some(MObj { kind: MKind::Listener { .. }, .. })),
                POp::UdpBind { host, .. } | POp::TcpBind { host, .. } | POp::ConnectRefused { host, .. } | POp::CrashBounce { host, .. } => *host >= sc.hosts,
                _ => false,
            } || matches!(op, POp::Connect { host, .. } | POp::ConnectCancelled { host, .. } | POp::ConnectRefused { host, .. } if *host >= sc.hosts)
                || matches!(op, POp::ConnectRefused { to, .. } if *to >= sc.hosts)
                || matches!(op, POp::Write { slot } if !matches!(model.borrow().objs.get(slot), Some(MObj { kind: MKind::Stream { .. }, .. })));
            if dead_ref {
                sh.log.ev(format!("#{k} {op:?}: refers to nothing alive, skipped"));
                k += 1;
                sh.cur.set(k);
                sh.started.set(0);
                continue;
            }
            // --- one step; then look for the results of op k ---
            if let Err(e) = step(&mut sim, &mut steps) {
                violation = Some(Violation::new("StepError", e));
                break 'run;
            }
            op_steps += 1;
            let parts: Vec<(u8, Part)> = sh.parts.borrow().iter().filter(|(i, _, _)| *i == k).map(|(_, r, p)| (*r, p.clone())).collect();
            let p0 = parts.iter().find(|(r, _)| *r == 0).map(|(_, p)| p.clone());
            let p1 = parts.iter().find(|(r, _)| *r == 1).map(|(_, p)| p.clone());
            let need_both = matches!(op, POp::Connect { .. });
            let complete = p0.is_some() && (!need_both || p1.is_some() || matches!(p0, Some(Part::ConnErr { .. }) | Some(Part::Skipped)));
            if !complete {
                if op_steps > op_limit {
                    violation = Some(Violation::new("OpStuck", format!("op #{k} {op:?} did not complete within {op_limit} steps (results so far: {parts:?})")));
                    break 'run;
                }
                continue;
            }
            op_steps = 0;
            let p0 = p0.unwrap();
            sh.log.ev(format!("#{k} {op:?} -> {p0:?}{}", p1.as_ref().map(|p| format!(" / {p:?}")).unwrap_or_default()));
            let mut m = model.borrow_mut();
            let mut bind = |m: &mut Model, host: usize, port: PortSpec, udp: bool, p0: &Part| -> Option<Violation> {
                let pre = m.in_use(host);
                let same = if udp { m.udp(host) } else { m.tcpl(host) };
                let proto = if udp { "UDP" } else { "TCP" };
                match (port, p0) {
                    (PortSpec::Zero, Part::Bound { port: p }) => {
                        if *p < lo || *p > hi {
                            return Some(Violation::new("PortOutOfRange", format!("op #{k}: {proto} bind to port 0 on h{host} returned port {p}, outside the ephemeral range {lo}..={hi}")));
                        }
                        if pre.contains(p) {
                            return Some(Violation::new("PortCollision", format!("op #{k}: {proto} bind to port 0 on h{host} was given port {p}, which is in use on that host by {}", m.holder(host, *p))));
                        }
                        probes.inc("ephemeral_port_assigned");
                        if m.free(host, lo, hi) == 1 {
                            probes.inc("last_free_port_assigned");
                        }
                        if let Some(prev) = last_eph[host] {
                            if *p <= prev {
                                probes.inc("port_cursor_wrapped");
                                nontrivial = true;
                            }
                        }
                        last_eph[host] = Some(*p);
                    }
                    (PortSpec::Fixed(q), Part::Bound { port: p }) => {
                        if p != &q {
                            return Some(Violation::new("WrongPort", format!("op #{k}: {proto} bind to fixed port {q} on h{host} reports local port {p}")));
                        }
                        if same.contains(&q) {
                            return Some(Violation::new("MissingAddrInUse", format!("op #{k}: {proto} bind to port {q} on h{host} succeeded although a live {proto} {} already holds it ({})", if udp { "socket" } else { "listener" }, m.holder(host, q))));
                        }
                        if pre.contains(&q) {
                            probes.inc("fixed_bind_shares_port_with_other_protocol_or_stream");
                        }
                        if ever_used[host].contains(&q) {
                            probes.inc(if crashed_since[host] { "port_rebound_after_crash_or_drop" } else { "port_rebound_after_drop" });
                        }
                    }
                    (PortSpec::Fixed(q), Part::BindErr { kind }) => {
                        if !same.contains(&q) {
                            return Some(Violation::new("SpuriousBindError", format!("op #{k}: {proto} bind to port {q} on h{host} failed with {} although no live {proto} socket holds that port (ports in use on h{host}: {pre:?})", kind_name(*kind))));
                        }
                        if *kind != io::ErrorKind::AddrInUse {
                            return Some(Violation::new("WrongError", format!("op #{k}: {proto} bind to the occupied port {q} on h{host} failed with {} instead of AddrInUse", kind_name(*kind))));
                        }
                        probes.inc("addr_in_use_reported");
                        return None;
                    }
                    (PortSpec::Zero, Part::BindErr { kind }) => {
                        return Some(Violation::new("SpuriousBindError", format!("op #{k}: {proto} bind to port 0 on h{host} failed with {} ({} ports of the range are free)", kind_name(*kind), m.free(host, lo, hi))));
                    }
                    _ => return None,
                }
                let Part::Bound { port: p } = p0 else { return None };
                ever_used[host].insert(*p);
                m.objs.insert(2 * k, MObj::new(host, if udp { MKind::Udp { port: *p } } else { MKind::Listener { port: *p } }));
                sh.slot_host.borrow_mut().insert(2 * k, host);
                if !udp {
                    sh.lports.borrow_mut().insert(2 * k, *p);
                }
                None
            };
            let v: Option<Violation> = match op {
                POp::UdpBind { host, port, .. } => bind(&mut m, *host, *port, true, &p0),
                POp::TcpBind { host, port, .. } => bind(&mut m, *host, *port, false, &p0),
                POp::Connect { host, lslot, .. } | POp::ConnectCancelled { host, lslot, .. } | POp::ConnectRefused { host, to: lslot, .. } => {
                    let pre = m.in_use(*host);
                    let mut v = None;
                    match &p0 {
                        Part::Connected { local, peer } => {
                            let p = local.port();
                            if p < lo || p > hi {
                                v = Some(Violation::new("PortOutOfRange", format!("op #{k}: outgoing connect on h{host} got local port {p}, outside the ephemeral range {lo}..={hi}")));
                            } else if pre.contains(&p) {
                                v = Some(Violation::new("PortCollision", format!("op #{k}: outgoing connect on h{host} was given local port {p}, which is in use on that host by {}", m.holder(*host, p))));
                            } else {
                                probes.inc("ephemeral_port_assigned");
                                probes.inc("connect_accepted");
                                if m.free(*host, lo, hi) == 1 {
                                    probes.inc("last_free_port_assigned");
                                }
                                if let Some(prev) = last_eph[*host] {
                                    if p <= prev {
                                        probes.inc("port_cursor_wrapped");
                                        nontrivial = true;
                                    }
                                }
                                last_eph[*host] = Some(p);
                                ever_used[*host].insert(p);
                                m.objs.insert(2 * k, MObj::new(*host, MKind::Stream { port: p, conn: k, accepted: false }));
                                sh.slot_host.borrow_mut().insert(2 * k, *host);
                                let _ = peer;
                            }
                        }
                        Part::ConnErr { kind } => {
                            if matches!(op, POp::Connect { .. }) {
                                v = Some(Violation::new("ConnectFailed", format!("op #{k}: connect from h{host} to the live listener in slot {lslot} failed with {}", kind_name(*kind))));
                            } else {
                                probes.inc("connect_refused");
                            }
                        }
                        Part::Cancelled => probes.inc("connect_cancelled"),
                        _ => {}
                    }
                    if v.is_none() {
                        if let Some(Part::Accepted { local, .. }) = &p1 {
                            let lh = sh.slot_host.borrow().get(lslot).copied();
                            if let Some(lh) = lh {
                                m.objs.insert(2 * k + 1, MObj::new(lh, MKind::Stream { port: local.port(), conn: k, accepted: true }));
                                sh.slot_host.borrow_mut().insert(2 * k + 1, lh);
                            }
                        }
                    }
                    v
                }
                POp::Write { slot } => {
                    // the byte is never read: a live peer now holds unread data (dropping it resets
                    // this stream); a peer that is gone answers with a reset
                    match m.peer_slot(*slot) {
                        Some(p) => {
                            m.objs.get_mut(&p).unwrap().unread = true;
                            probes.inc("write_to_live_peer");
                        }
                        None => {
                            if let Some(o) = m.objs.get_mut(slot) {
                                o.maybe_reset = true;
                            }
                            probes.inc("write_to_dead_peer");
                        }
                    }
                    None
                }
                POp::Drop { slot } => {
                    let peer_alive = m.peer_slot(*slot).is_some();
                    if let Some(o) = m.remove(*slot) {
                        if matches!(o.kind, MKind::Stream { accepted: false, .. }) && peer_alive {
                            probes.inc("connector_side_dropped_first");
                        }
                        if o.unread && peer_alive {
                            probes.inc("dropped_with_unread_data_resets_peer");
                        }
                        probes.inc("object_dropped");
                    }
                    sh.slot_host.borrow_mut().remove(slot);
                    sh.lports.borrow_mut().remove(slot);
                    None
                }
                _ => None,
            };
            drop(m);
            if let Some(v) = v {
                violation = Some(v);
                break 'run;
            }
            if let Some(v) = hook_check(&sim, &model.borrow(), &format!("op #{k} {op:?}")) {
                violation = Some(v);
                break 'run;
            }
            sh.log.tag(match op {
                POp::UdpBind { port: PortSpec::Zero, .. } => "u0",
                POp::UdpBind { .. } => "uf",
                POp::TcpBind { port: PortSpec::Zero, .. } => "t0",
                POp::TcpBind { .. } => "tf",
                POp::Connect { .. } => "c",
                POp::ConnectRefused { .. } => "cr",
                POp::ConnectCancelled { .. } => "cc",
                POp::Write { .. } => "w",
                POp::Drop { .. } => "d",
                _ => "",
            });
            sh.log.tag(match &p0 {
                Part::Bound { .. } | Part::Connected { .. } => "+",
                Part::BindErr { .. } | Part::ConnErr { .. } => "-",
                _ => ".",
            });
            k += 1;
            sh.cur.set(k);
            sh.started.set(0);
        }
        drop(sim);
    });
    let mut harness_error = None;
    if let Err(p) = res {
        let k = cur_op.get();
        let op = sc.ops.get(k);
        if p.contains("ports exhausted") {
            let h = op.and_then(|o| op_host(o, &sh.slot_host.borrow())).unwrap_or(0);
            let free = model.borrow().free(h, lo, hi);
            if free > 0 {
                violation = Some(Violation::new(
                    "ExhaustedEarly",
                    format!("[h={h} free={free}] op #{k} {:?}: ephemeral allocation on h{h} panicked ({p}) although {free} of the {} ports of the range are used by no live socket, listener or stream (in use: {:?})", op, hi - lo + 1, model.borrow().in_use(h)),
                ));
            } else {
                harness_error = Some(format!("generator exhausted the ephemeral range: {p}"));
            }
        } else if p.contains("server socket buffer full") {
            harness_error = Some(format!("generator left the documented limits: {p}"));
        } else {
            violation = Some(Violation::new("Panic", format!("op #{k} {:?}: panic while running the simulation: {p}", op)));
        }
    }
    probes.inc(if sc.guarded { "generated_guarded" } else { "generated_unguarded" });
    let mut rep = Report::from_log(sh.log.take());
    rep.violation = violation;
    rep.harness_error = harness_error;
    rep.nontrivial = nontrivial;
    rep.faults = faults;
    rep.probes = probes;
    rep.steps = steps;
    rep.sim_ms = steps * sc.cfg.tick_us / 1000;
    rep
}

// ------------------------------------------------------------------------------------------------
// names

#[derive(Clone, Debug)]
enum NReq {
    Lookup(String),
    Reverse(IpAddr),
    Regex(usize),
    SockAddr(String),
}

#[derive(Clone, Debug)]
enum NAns {
    Addr(IpAddr),
    Name(Option<String>),
    Addrs(Vec<IpAddr>),
    Sock(Result<Vec<SocketAddr>, io::ErrorKind>),
}

type NQueue = Rc<RefCell<(Option<NReq>, Option<NAns>)>>;

async fn prober(q: NQueue, tick: Duration) -> turmoil::Result {
    loop {
        let req = q.borrow_mut().0.take();
        if let Some(req) = req {
            let ans = match req {
                NReq::Lookup(n) => NAns::Addr(turmoil::lookup(n)),
                NReq::Reverse(a) => NAns::Name(turmoil::reverse_lookup(a)),
                NReq::Regex(i) => NAns::Addrs(turmoil::lookup_many(regex::Regex::new(REGEXES[i]).unwrap())),
                NReq::SockAddr(n) => NAns::Sock(turmoil::net::lookup_host((n, 80)).await.map(|it| it.collect()).map_err(|e| e.kind())),
            };
            q.borrow_mut().1 = Some(ans);
        }
        tokio::time::sleep(tick).await;
    }
}

fn in_subnet(a: IpAddr, ipv6: bool) -> bool {
    match a {
        IpAddr::V4(v) => !ipv6 && v.octets()[0] == 192 && v.octets()[1] == 168,
        IpAddr::V6(v) => ipv6 && v.segments()[0] == 0xfe80 && v.segments()[1..4] == [0, 0, 0],
    }
}

fn literal(v: u32, ipv6: bool) -> IpAddr {
    if ipv6 {
        // textual forms that start with a digit, a letter or a colon; sometimes inside the simulated subnet
        match v % 5 {
            0 => IpAddr::V6(std::net::Ipv6Addr::new(0xfe80, 0, 0, 0, 0, 0, 0, (v >> 8) as u16 % 700)),
            1 => IpAddr::V6(std::net::Ipv6Addr::new(0xfd00, 0, 0, 0, 0, 0, (v >> 16) as u16, v as u16)),
            2 => IpAddr::V6(std::net::Ipv6Addr::new(0, 0, 0, 0, 0, 0, 0, 1 + (v >> 8) as u16 % 3)),
            _ => IpAddr::V6(std::net::Ipv6Addr::new(0x2001, 0xdb8, 0, 0, 0, 0, (v >> 16) as u16, v as u16)),
        }
    } else {
        // sometimes inside the simulated subnet
        let o = v.to_be_bytes();
        if v % 3 == 0 {
            IpAddr::V4(std::net::Ipv4Addr::new(192, 168, o[2], o[3]))
        } else {
            IpAddr::V4(std::net::Ipv4Addr::new(o[0].max(1), o[1], o[2], o[3]))
        }
    }
}

/// The reference name table: registration order plus indexes both ways.
#[derive(Default)]
struct Known {
    order: Vec<(String, IpAddr)>,
    by_name: BTreeMap<String, IpAddr>,
    by_addr: BTreeMap<IpAddr, String>,
}

impl Known {
    fn iter(&self) -> std::slice::Iter<'_, (String, IpAddr)> {
        self.order.iter()
    }
    fn len(&self) -> usize {
        self.order.len()
    }
    fn get(&self, name: &str) -> Option<IpAddr> {
        self.by_name.get(name).copied()
    }
    fn push(&mut self, name: &str, a: IpAddr) {
        self.order.push((name.to_string(), a));
        self.by_name.insert(name.to_string(), a);
        self.by_addr.insert(a, name.to_string());
    }
}

/// Judge one name -> address observation against the names seen so far.
fn see(known: &mut Known, name: &str, got: IpAddr, how: &str, ipv6: bool, probes: &mut Counters, repeated: &mut bool) -> Option<Violation> {
    if let Some(a) = known.get(name).as_ref() {
        *repeated = true;
        if *a != got {
            return Some(Violation::new("UnstableAddress", format!("{how}({name}) returned {got}, earlier lookups of the same name returned {a}")));
        }
        return None;
    }
    if let Some(other) = known.by_addr.get(&got) {
        return Some(Violation::new("DuplicateAddress", format!("{how}({name}) returned {got}, the address already given to the different name {other} ({} names registered)", known.len())));
    }
    if !in_subnet(got, ipv6) {
        return Some(Violation::new("OutOfSubnet", format!("{how}({name}) returned {got}, outside {}", if ipv6 { "fe80::/64" } else { "192.168.0.0/16" })));
    }
    known.push(name, got);
    probes.inc("name_registered");
    if known.len() == 257 {
        probes.inc("more_than_256_names");
    }
    None
}

fn run_names(sc: &NamesSc, keep: bool) -> Report {
    let log = SharedLog::new(keep);
    let mut violation: Option<Violation> = None;
    let mut probes = Counters::default();
    let mut steps = 0u64;
    let mut repeated = false;
    let mut storm_lookups = 0u64;
    let mut storm_pos = 0usize;
    let mut known = Known::default();
    let ipv6 = sc.cfg.ipv6;
    let res = catch(|| {
        let mut sim = sc.cfg.build();
        let q: NQueue = Rc::new(RefCell::new((None, None)));
        let mut prober_up = false;
        let prober_registered = Rc::new(Cell::new(false));
        let prober_flag = prober_registered.clone();
        let mut registered_hosts: Vec<String> = Vec::new();
        let tick = sc.cfg.tick();
        let mut ask = |sim: &mut turmoil::Sim<'_>, known: &mut Known, req: NReq, steps: &mut u64, probes: &mut Counters, repeated: &mut bool| -> Result<Option<NAns>, Violation> {
            if !prober_up {
                prober_up = true;
                prober_flag.set(true);
                let qq = q.clone();
                sim.host("prober", move || prober(qq.clone(), tick));
                let a = sim.lookup("prober");
                if let Some(v) = see(known, "prober", a, "Sim::lookup", ipv6, probes, repeated) {
                    return Err(v);
                }
            }
            q.borrow_mut().0 = Some(req);
            for _ in 0..4 {
                *steps += 1;
                if let Err(e) = sim.step() {
                    return Err(Violation::new("StepError", e.to_string()));
                }
                if let Some(a) = q.borrow_mut().1.take() {
                    return Ok(Some(a));
                }
            }
            Ok(None)
        };
        for (i, op) in sc.ops.iter().enumerate() {
            let v: Option<Violation> = match op {
                NOp::Lookup(n) => {
                    let name = name_of(*n);
                    // &str and String forms alternate
                    let got = if i % 2 == 0 { sim.lookup(name.as_str()) } else { sim.lookup(name.clone()) };
                    log.ev(format!("#{i} Sim::lookup({name}) -> {got}"));
                    log.tag("l");
                    see(&mut known, &name, got, "Sim::lookup", ipv6, &mut probes, &mut repeated)
                }
                NOp::LookupInside(n) => {
                    let name = name_of(*n);
                    match ask(&mut sim, &mut known, NReq::Lookup(name.clone()), &mut steps, &mut probes, &mut repeated) {
                        Err(v) => Some(v),
                        Ok(Some(NAns::Addr(got))) => {
                            log.ev(format!("#{i} turmoil::lookup({name}) -> {got}"));
                            log.tag("li");
                            see(&mut known, &name, got, "turmoil::lookup", ipv6, &mut probes, &mut repeated)
                        }
                        Ok(_) => None,
                    }
                }
                NOp::Reverse(n) | NOp::ReverseInside(n) => {
                    let name = name_of(*n);
                    match known.get(&name) {
                        None => {
                            let got = sim.lookup(name.as_str());
                            log.ev(format!("#{i} Sim::lookup({name}) -> {got}"));
                            see(&mut known, &name, got, "Sim::lookup", ipv6, &mut probes, &mut repeated)
                        }
                        Some(a) => {
                            let got = if matches!(op, NOp::Reverse(_)) {
                                Ok(sim.reverse_lookup(a))
                            } else {
                                match ask(&mut sim, &mut known, NReq::Reverse(a), &mut steps, &mut probes, &mut repeated) {
                                    Err(v) => Err(v),
                                    Ok(Some(NAns::Name(g))) => Ok(g),
                                    Ok(_) => Ok(Some(name.clone())),
                                }
                            };
                            match got {
                                Err(v) => Some(v),
                                Ok(g) => {
                                    log.ev(format!("#{i} reverse_lookup({a}) -> {g:?}"));
                                    log.tag("rv");
                                    probes.inc("reverse_lookups");
                                    if g.as_deref() != Some(name.as_str()) {
                                        Some(Violation::new("ReverseMismatch", format!("lookup({name}) = {a} but reverse_lookup({a}) = {g:?}")))
                                    } else {
                                        None
                                    }
                                }
                            }
                        }
                    }
                }
                NOp::ReverseLiteral(x) => {
                    let k = 1 + (*x >> 8) % (known.order.len() as u32 + 2);
                    let a: IpAddr = if ipv6 {
                        match x % 4 {
                            0 => IpAddr::V6(std::net::Ipv6Addr::LOCALHOST),
                            1 => IpAddr::V6(std::net::Ipv6Addr::new(0xfd00, 0, 0, 0, 0, 0, 0, k as u16)),
                            2 => IpAddr::V6(std::net::Ipv6Addr::new(0x2001, 0xdb8, 0, 0, 0, 0, 0, k as u16)),
                            _ => IpAddr::V6(std::net::Ipv6Addr::new(0xfe80, 0, 0, 0, 0, 0, 0, k as u16)),
                        }
                    } else {
                        match x % 4 {
                            0 => IpAddr::V4(std::net::Ipv4Addr::LOCALHOST),
                            1 => IpAddr::V4(std::net::Ipv4Addr::new(10, 0, (k >> 8) as u8, k as u8)),
                            2 => IpAddr::V4(std::net::Ipv4Addr::new(172, 16, (k >> 8) as u8, k as u8)),
                            _ => IpAddr::V4(std::net::Ipv4Addr::new(192, 168, (k >> 8) as u8, k as u8)),
                        }
                    };
                    let g = sim.reverse_lookup(a);
                    log.ev(format!("#{i} reverse_lookup(literal {a}) -> {g:?}"));
                    log.tag("rvl");
                    probes.inc("reverse_lookups_of_addresses_not_necessarily_handed_out");
                    let owner = known.by_addr.get(&a).cloned();
                    match (&g, &owner) {
                        // the answer names a name that maps somewhere else: not an inverse of lookup
                        (Some(n), _) if known.by_name.get(n).map(|b| *b != a).unwrap_or(false) => {
                            Some(Violation::new("ReverseMismatch", format!("reverse_lookup({a}) = Some({n:?}) but lookup({n}) = {}", known.by_name[n])))
                        }
                        (None, Some(n)) => Some(Violation::new("ReverseMismatch", format!("lookup({n}) = {a} but reverse_lookup({a}) = None"))),
                        _ => None,
                    }
                }
                NOp::LiteralIp(x) | NOp::LiteralStr(x) => {
                    let a = literal(*x, ipv6);
                    let got = match (op, a) {
                        (NOp::LiteralIp(_), IpAddr::V4(v4)) if x % 2 == 0 => sim.lookup(v4),
                        (NOp::LiteralIp(_), IpAddr::V6(v6)) if x % 2 == 0 => sim.lookup(v6),
                        (NOp::LiteralIp(_), _) => sim.lookup(a),
                        _ => sim.lookup(a.to_string().as_str()),
                    };
                    log.ev(format!("#{i} Sim::lookup(literal {a}) -> {got}"));
                    log.tag("lit");
                    probes.inc("literal_lookups");
                    if matches!(op, NOp::LiteralStr(_)) && !a.to_string().starts_with(|c: char| c.is_ascii_digit()) {
                        probes.inc("literal_as_text_not_starting_with_a_digit");
                    }
                    if got != a {
                        Some(Violation::new("LiteralNotItself", format!("the literal address {a} resolved to {got}")))
                    } else {
                        None
                    }
                }
                NOp::Regex(r) | NOp::RegexInside(r) => {
                    let ri = *r as usize % REGEXES.len();
                    let re = regex::Regex::new(REGEXES[ri]).unwrap();
                    let got = if matches!(op, NOp::Regex(_)) {
                        Ok(sim.lookup_many(re.clone()))
                    } else {
                        match ask(&mut sim, &mut known, NReq::Regex(ri), &mut steps, &mut probes, &mut repeated) {
                            Err(v) => Err(v),
                            Ok(Some(NAns::Addrs(g))) => Ok(g),
                            Ok(_) => Ok(known.iter().filter(|(n, _)| re.is_match(n)).map(|(_, a)| *a).collect()),
                        }
                    };
                    match got {
                        Err(v) => Some(v),
                        Ok(g) => {
                            let mut want: Vec<IpAddr> = known.iter().filter(|(n, _)| re.is_match(n)).map(|(_, a)| *a).collect();
                            let mut gs = g.clone();
                            want.sort();
                            gs.sort();
                            log.ev(format!("#{i} lookup_many(/{}/) -> {} addresses", REGEXES[ri], g.len()));
                            log.tag("re");
                            probes.inc("regex_lookups");
                            if want.len() >= 2 {
                                probes.inc("regex_matched_several_names");
                            }
                            if gs != want {
                                Some(Violation::new("RegexMismatch", format!("lookup_many(/{}/) returned {} addresses {:?}, the registered names matching it have {} addresses {:?}", REGEXES[ri], gs.len(), &gs[..gs.len().min(6)], want.len(), &want[..want.len().min(6)])))
                            } else {
                                None
                            }
                        }
                    }
                }
                NOp::StormRegex { regex, times } => {
                    let ri = *regex as usize % REGEXES.len();
                    let re = regex::Regex::new(REGEXES[ri]).unwrap();
                    let mut want: Vec<IpAddr> = known.iter().filter(|(n, _)| re.is_match(n)).map(|(_, a)| *a).collect();
                    want.sort();
                    let mut v = None;
                    for k in 0..*times {
                        let mut gs = sim.lookup_many(re.clone());
                        gs.sort();
                        storm_lookups += want.len() as u64;
                        if gs != want {
                            v = Some(Violation::new("RegexMismatch", format!("lookup_many(/{}/), call {k} of a storm: returned {} addresses, the registered names matching it have {}", REGEXES[ri], gs.len(), want.len())));
                            break;
                        }
                    }
                    log.ev(format!("#{i} storm: lookup_many(/{}/) x{times} -> {} addresses each", REGEXES[ri], want.len()));
                    log.tag("storm-re");
                    repeated = true;
                    v
                }
                NOp::StormNames { count } => {
                    let mut v = None;
                    if known.len() > 0 {
                        for _ in 0..*count {
                            let (name, a) = &known.order[storm_pos % known.len()];
                            storm_pos += 1;
                            let got = sim.lookup(name.as_str());
                            storm_lookups += 1;
                            if got != *a {
                                v = Some(Violation::new("UnstableAddress", format!("Sim::lookup({name}) returned {got} in a storm of repeated lookups, earlier lookups of the same name returned {a}")));
                                break;
                            }
                        }
                    }
                    log.ev(format!("#{i} storm: {count} lookups by name of names registered before ({} names)", known.len()));
                    log.tag("storm-n");
                    repeated = true;
                    v
                }
                NOp::LinkByName { host, kind } => {
                    // only between registered hosts (a link exists); the prober is one of them
                    if prober_registered.get() && (*host as usize) < registered_hosts.len() {
                        let (a, b) = ("prober", registered_hosts[*host as usize].as_str());
                        match kind % 4 {
                            0 => sim.hold(a, b),
                            1 => sim.release(a, b),
                            2 => sim.partition(a, b),
                            _ => sim.repair(a, b),
                        }
                        storm_lookups += 2;
                        probes.inc("link_fault_by_name");
                        log.ev(format!("#{i} link fault kind {} by name between {a} and {b}", kind % 4));
                        log.tag("lf");
                    }
                    None
                }
                NOp::RegisterHost(n) => {
                    let name = name_of(*n);
                    if known.get(&name).is_some() {
                        None // registering the same address twice is a documented panic
                    } else {
                        sim.host(name.clone(), || async { Ok(()) });
                        registered_hosts.push(name.clone());
                        let got = sim.lookup(name.as_str());
                        log.ev(format!("#{i} Sim::host({name}); lookup -> {got}"));
                        log.tag("h");
                        probes.inc("hosts_registered");
                        see(&mut known, &name, got, "Sim::host+lookup", ipv6, &mut probes, &mut repeated)
                    }
                }
                NOp::SocketAddr(n) => {
                    let name = name_of(*n);
                    let want = known.get(&name);
                    match ask(&mut sim, &mut known, NReq::SockAddr(name.clone()), &mut steps, &mut probes, &mut repeated) {
                        Err(v) => Some(v),
                        Ok(Some(NAns::Sock(g))) => {
                            log.ev(format!("#{i} lookup_host(({name}, 80)) -> {g:?}"));
                            log.tag("sa");
                            match (want, g) {
                                (Some(a), Ok(v)) if v != vec![SocketAddr::new(a, 80)] => Some(Violation::new("UnstableAddress", format!("lookup_host(({name}, 80)) returned {v:?}, lookup({name}) had returned {a}"))),
                                (Some(a), Err(k)) => Some(Violation::new("UnstableAddress", format!("lookup_host(({name}, 80)) failed with {} although {name} is registered as {a}", kind_name(k)))),
                                _ => None, // unknown names: not judged (the text is silent)
                            }
                        }
                        Ok(_) => None,
                    }
                }
            };
            if v.is_some() {
                violation = v;
                break;
            }
        }
        drop(sim);
    });
    if let Err(p) = res {
        if violation.is_none() {
            violation = Some(Violation::new("Panic", format!("panic in the name scenario: {p}")));
        }
    }
    log.tag(if ipv6 { "v6" } else { "v4" });
    let mut rep = Report::from_log(log.take());
    if storm_lookups >= 65_536 {
        probes.inc("lookup_storm_over_65536_then_new_names");
    }
    probes.add("storm_lookups_of_known_names", storm_lookups);
    rep.nontrivial = known.len() >= 2 && repeated;
    rep.violation = violation;
    rep.probes = probes;
    rep.steps = steps;
    rep.sim_ms = steps * sc.cfg.tick_us / 1000;
    rep
}

// ------------------------------------------------------------------------------------------------

fn parse_h(msg: &str) -> Option<usize> {
    msg.strip_prefix("[h=")?.split([' ', ']']).next()?.parse().ok()
}

fn guards_ok(sc: &PortsSc) -> bool {
    !sc.guarded || !o11_exposed(sc)
}

impl Property for C15 {
    const ID: &'static str = "C15";
    const LEVEL: &'static str = "exploration";
    type Scenario = Scenario;

    fn rule() -> String {
        "two families. PORTS (70%): 1-2 hosts with an ephemeral range of 3-8 ports (incl. ranges ending at 65535), fixed latency 0-3 ticks, IPv4/IPv6; seeded sequences of 4-40 operations executed one at a time: UDP bind / TCP listener bind (port 0 or fixed, inside and outside the range, wildcard or localhost), connect to a live listener (accepted by its host; same host via own address or 127.0.0.1, other host by IP or name), connect refused (no listener), connect cancelled by timeout, one-byte writes, drops, crash+bounce (downtime 0-3 steps). Reference model = set of ports in use per host (UDP binds, TCP binds, local ports of live stream objects): every port handed out for port 0 or an outgoing connect lies in the range and is not in use at that instant; a fixed bind fails with AddrInUse exactly when a live socket of the same protocol holds the port (so dropped and crashed ports are bindable again, and a listener bind is not blocked by a stream's port or the other protocol); 'ports exhausted' is a violation while the model has a free port; after every operation the hook's UDP/TCP bind counts equal the model's and the stream table never has more entries than live stream objects (equal when no reset is possible). NAMES (30%): 1-600 names looked up in seeded orders through Sim::lookup (&str/String), turmoil::lookup from inside a host, reverse_lookup, literal addresses (IpAddr/Ipv4Addr/Ipv6Addr/string), lookup_many(regex), Sim::host registration, lookup_host: same name => same address, different names => different addresses, all inside 192.168.0.0/16 resp. fe80::/64, reverse_lookup inverts, literals resolve to themselves, a regex resolves to exactly the registered names it matches. Non-trivial: the ephemeral cursor wrapped at least once (ports) / >=2 names and a repeated lookup (names); distinct = digest of (op kind, outcome kind) sequences. Added later: plain-name regexes that match several names; connects to unowned addresses; literal text forms fe80::/fd00::/::1; reverse lookups of addresses the DNS never handed out (loopback, other prefixes, small host numbers): an answer must name a name that maps back to the address.".into()
    }
    fn components_real() -> Vec<&'static str> {
        vec!["turmoil: Host::assign_ephemeral_port, Udp/Tcp bind tables and stream table (host.rs), net::UdpSocket::bind, net::TcpListener::bind/accept, net::TcpStream::connect/drop, Sim::crash/bounce, Dns (dns.rs, ip.rs): Sim::lookup/reverse_lookup/lookup_many, turmoil::lookup/reverse_lookup/lookup_many, net::lookup_host; hook Sim::verif_host_table_counts"]
    }
    fn components_stub() -> Vec<&'static str> {
        vec!["per-host worker interpreting the shared operation list one operation at a time; the controller (crash/bounce, bookkeeping)"]
    }
    fn assumptions() -> Vec<String> {
        vec![
            "operations are executed one at a time, so 'in use at that instant' is exact".into(),
            "the kind of error of a failing connect and the pairing of connects and accepts are C12's subject and not judged here".into(),
            "lookup_host of a name that was never looked up and reverse_lookup of an address that belongs to no name are recorded, not judged".into(),
            "95% of the port scenarios avoid the triggers of known finding O11 (connector side of a connection dropped, crashed or reset while the accepted side lives on; writes; stream ends, crashes and abandoned connects not followed by a settling pause; a fixed listener bind on a port of the range while an outgoing stream lives); 5% contain them. Refused and cancelled connects are generated everywhere (O4 is fixed in /repo, 8fcc78f)".into(),
        ]
    }
    fn budget(tier: Tier) -> u64 {
        match tier {
            Tier::Quick => 300_000,
            Tier::Thorough => 6_000_000,
        }
    }

    fn generate(rng: &mut Rng, _idx: u64, _tier: Tier) -> Scenario {
        if rng.chance(7, 10) {
            Scenario::Ports(gen_ports(rng))
        } else if rng.chance(1, 60) {
            Scenario::Names(gen_storm(rng))
        } else {
            Scenario::Names(gen_names(rng))
        }
    }

    fn run(sc: &Scenario, keep: bool) -> Report {
        match sc {
            Scenario::Ports(p) => run_ports(p, keep),
            Scenario::Names(n) => run_names(n, keep),
        }
    }

    fn shrink(sc: &Scenario) -> Vec<Scenario> {
        match sc {
            Scenario::Ports(p) => {
                let mut out: Vec<PortsSc> = Vec::new();
                // cut the tail first, then single ops
                for cut in [p.ops.len() / 2, p.ops.len().saturating_sub(1)] {
                    if cut > 0 && cut < p.ops.len() {
                        out.push(PortsSc { ops: p.ops[..cut].to_vec(), ..p.clone() });
                    }
                }
                for i in 0..p.ops.len() {
                    // removing op i shifts the slot ids of all later ops
                    let mut ops = p.ops.clone();
                    ops.remove(i);
                    let fix = |s: usize| -> Option<usize> {
                        let (k, side) = (s / 2, s % 2);
                        if k == i {
                            None
                        } else if k > i {
                            Some(2 * (k - 1) + side)
                        } else {
                            Some(s)
                        }
                    };
                    let mut ok = true;
                    for o in ops.iter_mut() {
                        match o {
                            POp::Connect { lslot, .. } | POp::ConnectCancelled { lslot, .. } => match fix(*lslot) {
                                Some(s) => *lslot = s,
                                None => ok = false,
                            },
                            POp::Write { slot } | POp::Drop { slot } => match fix(*slot) {
                                Some(s) => *slot = s,
                                None => *slot = usize::MAX / 4,
                            },
                            _ => {}
                        }
                    }
                    if ok {
                        out.push(PortsSc { ops, ..p.clone() });
                    }
                }
                if p.hosts == 2 && p.ops.iter().all(|o| op_static_hosts(o).iter().all(|h| *h == 0)) {
                    out.push(PortsSc { hosts: 1, ..p.clone() });
                }
                for (i, o) in p.ops.iter().enumerate() {
                    let simpler = match o {
                        POp::CrashBounce { host, down } if *down > 0 => Some(POp::CrashBounce { host: *host, down: 0 }),
                        POp::Sleep { ticks } if *ticks > 1 => Some(POp::Sleep { ticks: 1 }),
                        POp::UdpBind { host, port, localhost: true } => Some(POp::UdpBind { host: *host, port: *port, localhost: false }),
                        POp::Connect { host, lslot, via: CVia::Name } => Some(POp::Connect { host: *host, lslot: *lslot, via: CVia::Ip }),
                        _ => None,
                    };
                    if let Some(s) = simpler {
                        let mut c = p.clone();
                        c.ops[i] = s;
                        out.push(c);
                    }
                }
                let mut cfgs = Vec::new();
                if p.cfg.random_order {
                    cfgs.push(SimCfg { random_order: false, ..p.cfg.clone() });
                }
                if p.cfg.ipv6 {
                    cfgs.push(SimCfg { ipv6: false, ..p.cfg.clone() });
                }
                if p.cfg.max_latency_us != 0 {
                    cfgs.push(SimCfg { min_latency_us: 0, max_latency_us: 0, ..p.cfg.clone() });
                }
                if p.cfg.tick_us != 1000 {
                    let f = |x: u64| x / p.cfg.tick_us * 1000;
                    cfgs.push(SimCfg { tick_us: 1000, min_latency_us: f(p.cfg.min_latency_us), max_latency_us: f(p.cfg.max_latency_us), ..p.cfg.clone() });
                }
                for cfg in cfgs {
                    out.push(PortsSc { cfg, ..p.clone() });
                }
                out.retain(guards_ok);
                out.into_iter().map(Scenario::Ports).collect()
            }
            Scenario::Names(n) => {
                let mut out = Vec::new();
                for cut in [n.ops.len() / 2, n.ops.len().saturating_sub(1)] {
                    if cut > 0 && cut < n.ops.len() {
                        out.push(NamesSc { ops: n.ops[..cut].to_vec(), ..n.clone() });
                    }
                }
                // chunks, then single ops
                let len = n.ops.len();
                let mut chunk = len / 2;
                while chunk >= 1 {
                    let mut start = 0;
                    while start + chunk <= len {
                        let mut ops = n.ops.clone();
                        ops.drain(start..start + chunk);
                        out.push(NamesSc { ops, ..n.clone() });
                        start += chunk;
                    }
                    if out.len() > 400 {
                        break;
                    }
                    chunk /= 2;
                }
                if n.cfg.ipv6 {
                    out.push(NamesSc { cfg: SimCfg { ipv6: false, ..n.cfg.clone() }, ..n.clone() });
                }
                out.into_iter().map(Scenario::Names).collect()
            }
        }
    }

    fn signature(sc: &Scenario) -> String {
        match sc {
            Scenario::Ports(p) => format!(
                "ports {}{}{} hosts={} range={} lat={}us ops={}",
                if o4_exposed(p) { "O4-EXPOSED " } else { "" },
                if o11_exposed(p) { "O11-EXPOSED " } else { "" },
                if p.guarded { "G" } else { "U" },
                p.hosts,
                p.cfg.ephemeral.map(|(a, b)| b - a + 1).unwrap_or(0),
                p.cfg.max_latency_us,
                p.ops
                    .iter()
                    .map(|o| match o {
                        POp::UdpBind { port: PortSpec::Zero, .. } => "udp0",
                        POp::UdpBind { .. } => "udpF",
                        POp::TcpBind { port: PortSpec::Zero, .. } => "tcp0",
                        POp::TcpBind { .. } => "tcpF",
                        POp::Connect { .. } => "conn",
                        POp::ConnectRefused { .. } => "connRefused",
                        POp::ConnectCancelled { .. } => "connCancelled",
                        POp::Write { .. } => "write",
                        POp::Drop { .. } => "drop",
                        POp::CrashBounce { .. } => "crash",
                        POp::Sleep { .. } => "sleep",
                    })
                    .collect::<Vec<_>>()
                    .join(",")
            ),
            Scenario::Names(n) => format!("names v{} universe={} ops={}", if n.cfg.ipv6 { 6 } else { 4 }, n.names, n.ops.len()),
        }
    }

    fn known_match(matcher: &str, sc: &Scenario, v: &Violation) -> bool {
        let Scenario::Ports(p) = sc else { return false };
        match matcher {
            // O4: a refused or cancelled connect keeps its stream-table entry and with it its ephemeral port
            KF_O4 => {
                let on_host = parse_h(&v.message).map(|h| gstate(p, p.ops.len()).failed_connect.get(h).copied().unwrap_or(false)).unwrap_or(false);
                matches!(v.class.as_str(), "StreamEntryLeak" | "ExhaustedEarly") && on_host
            }
            // O11: stream-table entries are keyed by the address pair only
            // ("missing stream socket": a stale RST of the old incarnation removed the client half of
            // the new connection between its registration and the accept)
            KF_O11 => o11_exposed(p) && ((v.class == "Panic" && (v.message.contains("is already connected") || v.message.contains("missing stream socket"))) || matches!(v.class.as_str(), "PortCollision" | "StreamEntryMissing")),
            _ => false,
        }
    }
}

fn op_static_hosts(o: &POp) -> Vec<usize> {
    match o {
        POp::UdpBind { host, .. } | POp::TcpBind { host, .. } | POp::Connect { host, .. } | POp::ConnectCancelled { host, .. } | POp::CrashBounce { host, .. } => vec![*host],
        POp::ConnectRefused { host, to, .. } => vec![*host, *to],
        _ => vec![],
    }
}

#[cfg(test)]
mod tests {
    use super::*;

    #[test]
    fn model_basics() {
        let mut m = Model::default();
        m.objs.insert(0, MObj::new(0, MKind::Udp { port: 5 }));
        m.objs.insert(2, MObj::new(0, MKind::Listener { port: 6 }));
        m.objs.insert(4, MObj::new(0, MKind::Stream { port: 7, conn: 2, accepted: false }));
        m.objs.insert(5, MObj::new(1, MKind::Stream { port: 6, conn: 2, accepted: true }));
        assert_eq!(m.in_use(0), [5u16, 6, 7].into_iter().collect());
        assert_eq!(m.free(0, 5, 8), 1);
        assert_eq!(m.udp(0).len(), 1);
        assert_eq!(m.tcpl(0).len(), 1);
        assert_eq!(m.streams(1), 1);
        assert_eq!(parse_h("[h=1 free=2] x"), Some(1));
        assert_eq!(parse_h("[h=0] x"), Some(0));
    }

    /// recycle_ports / ephemeral_port_does_not_leak_* of /repo's suite as a scripted scenario
    #[test]
    fn scripted_wraparound_is_quiet() {
        crate::core::install_panic_hook();
        let cfg = SimCfg { ephemeral: Some((49152, 49154)), min_latency_us: 1000, max_latency_us: 1000, ..SimCfg::default() };
        let ops = vec![
            POp::TcpBind { host: 1, port: PortSpec::Fixed(80), localhost: false },
            POp::Connect { host: 0, lslot: 0, via: CVia::Ip },
            POp::Drop { slot: 3 },
            POp::Sleep { ticks: 5 },
            POp::Drop { slot: 2 },
            POp::Sleep { ticks: 5 },
            POp::Connect { host: 0, lslot: 0, via: CVia::Name },
            POp::UdpBind { host: 0, port: PortSpec::Zero, localhost: false },
            POp::UdpBind { host: 0, port: PortSpec::Zero, localhost: false },
            POp::UdpBind { host: 0, port: PortSpec::Fixed(49153), localhost: false },
        ];
        // (49153 is held by the second connect: UDP and streams are different port spaces for explicit binds)
        let sc = PortsSc { cfg, guarded: true, hosts: 2, ops };
        assert!(guards_ok(&sc));
        let r = run_ports(&sc, true);
        assert!(r.violation.is_none() && r.harness_error.is_none(), "{:?} {:?}\n{}", r.violation, r.harness_error, r.log.join("\n"));
        assert!(r.probes.get("port_cursor_wrapped") >= 1, "{:?}\n{}", r.probes, r.log.join("\n"));
    }
}
