//! C17 — turmoil-net binds and routes packets like a real socket table.
//!
//! Seeded histories of bind / UDP connect / TCP listen+connect / close on 1-3 hosts owning 1-3
//! addresses (v4 and v6) are executed against the real kernel through the shim sockets; after
//! every step a probe sweep sends uniquely tagged UDP datagrams and TCP connection attempts from
//! every host to every (address, port) of interest and to unknown addresses. The oracle is the
//! reference socket table of `wirekit2::table` (written from the property text).

use crate::core::prng::Rng;
use crate::core::{self, Log, Property, Report, Tier, Violation};
use crate::wirekit2::table::{BindExp, Bulk, MSock, Model, Proto, Role, SynExp, UdpExp, EPH_HI, EPH_LO, EPH_SIZE};
use crate::wirekit2::{desc, ek, kind, parse_ip, ports, tag_bytes, tag_of, Driver, NetCfg, PktKind, WakeFlag};
use serde::{Deserialize, Serialize};
use std::collections::{BTreeMap, BTreeSet};
use std::future::Future;
use std::net::{IpAddr, SocketAddr};
use std::pin::Pin;
use std::task::Poll;
use turmoil_net::shim::tokio::net::{TcpListener, TcpStream, UdpSocket};
use turmoil_net::Packet;

#[derive(Clone, Debug, Serialize, Deserialize, PartialEq)]
pub enum PortRef {
    Fixed(u16),
    /// the actual local port of the socket created by the step with this id
    Of(u32),
}

#[derive(Clone, Debug, Serialize, Deserialize, PartialEq)]
pub enum Step {
    /// UDP: `UdpSocket::bind`; TCP: `TcpListener::bind` (bind + listen)
    Bind { id: u32, host: usize, proto: Proto, ip: String, port: u16 },
    UdpConnect { sock: u32, ip: String, port: PortRef },
    /// `TcpStream::connect`; on success the accepted end gets id `id + SRV`
    TcpConnect { id: u32, host: usize, ip: String, port: PortRef, synack_hold: u8 },
    /// close a socket (for a TCP connection: both ends)
    Close { sock: u32 },
    /// drop the connecting end of a TCP connection and run no wire round: the stack still has to close it
    /// (FIN not even sent yet) while the following steps bind; the accepted end stays open
    CloseNoSettle { sock: u32 },
    /// bind and drop `n` UDP `0.0.0.0:0` sockets: rotates the ephemeral cursor
    Spin { host: usize, n: u32 },
    /// bind `count` consecutive fixed ports starting at `first` on one address and keep them
    Fill { host: usize, proto: Proto, ip: String, first: u16, count: u32 },
    /// bind `ip:0` up to `max` times and keep the sockets (drives the range to exhaustion)
    ZeroMany { host: usize, proto: Proto, ip: String, max: u32 },
    /// close the range-filling socket whose port lies `back` ports behind the most recently
    /// allocated ephemeral port (0 = that port itself, i.e. the one just behind the allocator's
    /// cursor), then bind `ip:0` twice: the single hole must be found, the second bind must fail
    Reopen { host: usize, proto: Proto, ip: String, back: u32 },
    /// start a connect from `host` to a listener on another host, keep the SYN-ACK on the wire,
    /// close the listener while the handshake is in flight, then let the SYN-ACK through
    CloseDuringHandshake { host: usize, ip: String, port: PortRef, listener: u32 },
    /// start a connect from `host` to a listener on another host, let the first SYN through and lose every
    /// later packet of that connection in both directions until both ends have given up: the listener's
    /// half-open child dies of retransmit exhaustion, not of a reset
    HalfOpenTimeout { host: usize, ip: String, port: PortRef, listener: u32 },
}

impl Step {
    fn kind(&self) -> &'static str {
        match self {
            Step::Bind { proto: Proto::Udp, .. } => "bindU",
            Step::Bind { proto: Proto::Tcp, .. } => "bindT",
            Step::UdpConnect { .. } => "uconn",
            Step::TcpConnect { .. } => "tconn",
            Step::Close { .. } => "close",
            Step::CloseNoSettle { .. } => "closens",
            Step::Spin { .. } => "spin",
            Step::Fill { .. } => "fill",
            Step::ZeroMany { .. } => "zeros",
            Step::Reopen { .. } => "reopen",
            Step::CloseDuringHandshake { .. } => "closehs",
            Step::HalfOpenTimeout { .. } => "halfopen",
        }
    }
}

#[derive(Clone, Debug, Serialize, Deserialize)]
pub struct Scenario {
    /// literal non-loopback addresses per host
    pub hosts: Vec<Vec<String>>,
    pub cfg: NetCfg,
    /// destination addresses nobody owns
    pub unknown: Vec<String>,
    /// a port nobody ever binds
    pub extra_port: u16,
    pub steps: Vec<Step>,
    /// sweep after every step (else only after the last)
    pub sweep_every: bool,
    /// include TCP connection probes in the sweeps
    pub sweep_tcp: bool,
}

pub struct C17;

const SRV: u32 = 100_000;
const PROBER: u32 = 1_000_000;

enum RSock {
    Udp(UdpSocket),
    Listener(TcpListener),
    Stream(TcpStream),
}

type ConnFut = Pin<Box<dyn Future<Output = std::io::Result<TcpStream>>>>;

struct Ctx<'a> {
    sc: &'a Scenario,
    d: Driver,
    m: Model,
    real: BTreeMap<u32, (usize, RSock)>,
    /// (host, protocol, local address, socket)
    bulk_real: Vec<(usize, Proto, SocketAddr, RSock)>,
    log: Log,
    rep: Report,
    v: Option<Violation>,
    herr: Option<String>,
    tag: u64,
    sweep_no: u32,
    nontrivial: bool,
    last_zero_port: Vec<Option<u16>>,
    accept_flag: WakeFlag,
    buf: Vec<Packet>,
    /// (host, port) of connections dropped without a wire round while their accepted end stays open: they
    /// linger in the stack (FIN_WAIT2 until the peer closes or the stack gives up), and a bind to exactly
    /// that port may or may not fail meanwhile (reclamation timing is C13's subject)
    lingering: Vec<(usize, u16)>,
}

fn in_eph(p: u16) -> bool {
    (EPH_LO..=EPH_HI).contains(&p)
}

impl<'a> Ctx<'a> {
    fn fail(&mut self, class: &str, msg: String) {
        if self.v.is_none() {
            self.log.ev(format!("VIOLATION {class}: {msg}"));
            self.v = Some(Violation::new(class, msg));
        }
    }

    fn stopped(&self) -> bool {
        self.v.is_some() || self.herr.is_some()
    }

    /// One wire round: everything that left a host is delivered at once, in egress order.
    /// `hold`: optional predicate deciding that a packet is kept back (returned to the caller).
    fn round(&mut self, mut hold: impl FnMut(&Packet) -> bool, held: &mut Vec<Packet>) -> usize {
        let mut buf = std::mem::take(&mut self.buf);
        buf.clear();
        self.d.egress(&mut buf);
        let n = buf.len();
        for p in buf.drain(..) {
            if self.log.keep && self.log.lines.len() < 4000 {
                self.log.lines.push(format!("        wire {}", desc(&p)));
            }
            if hold(&p) {
                held.push(p);
            } else {
                self.d.deliver(p);
            }
        }
        self.buf = buf;
        self.rep.steps += 1;
        n
    }

    fn plain_round(&mut self) -> usize {
        let mut none = Vec::new();
        self.round(|_| false, &mut none)
    }

    /// Run rounds until the wire stayed empty twice in a row.
    fn settle(&mut self, max: usize) {
        let mut quiet = 0;
        for _ in 0..max {
            if self.plain_round() == 0 {
                quiet += 1;
                if quiet >= 2 {
                    break;
                }
            } else {
                quiet = 0;
            }
        }
    }

    // ------------------------------------------------------------------------------------------
    // bind

    fn real_bind(&mut self, h: usize, proto: Proto, addr: SocketAddr) -> Option<std::io::Result<RSock>> {
        match proto {
            Proto::Udp => self.d.once(h, UdpSocket::bind(addr)).map(|r| r.map(RSock::Udp)),
            Proto::Tcp => self.d.once(h, TcpListener::bind(addr)).map(|r| r.map(RSock::Listener)),
        }
    }

    fn local_of(&self, h: usize, s: &RSock) -> std::io::Result<SocketAddr> {
        self.d.on(h, || match s {
            RSock::Udp(u) => u.local_addr(),
            RSock::Listener(l) => l.local_addr(),
            RSock::Stream(t) => t.local_addr(),
        })
    }

    /// Execute one bind against kernel and model; returns the socket and its actual address when
    /// both agree on success. The caller decides where the socket is kept.
    fn bind_judged(&mut self, what: &str, quiet: bool, h: usize, proto: Proto, ip: IpAddr, port: u16) -> Option<(RSock, SocketAddr)> {
        let mut exp = if port == 0 { self.m.bind_zero(h, proto, ip) } else { self.m.bind_fixed(h, proto, ip, port) };
        if port != 0 && proto == Proto::Tcp && exp == BindExp::Ok && self.lingering.contains(&(h, port)) {
            exp = BindExp::Either;
        }
        // ... and a bind to port 0 may find the range exhausted while the only ports the model has free are lingering ones
        if port == 0 && proto == Proto::Tcp && exp == BindExp::Ok {
            let ling = self.lingering.iter().filter(|(lh, _)| *lh == h).count();
            if ling > 0 && self.m.free_ephemeral(h, proto, ip.is_ipv4()) <= ling {
                exp = BindExp::Either;
            }
        }
        let Some(res) = self.real_bind(h, proto, SocketAddr::new(ip, port)) else {
            self.herr = Some(format!("{what}: bind future was pending"));
            return None;
        };
        let got = match &res {
            Ok(_) => "Ok".to_string(),
            Err(e) => ek(e),
        };
        // same digest whether or not lines are kept; bulk loops log the outcome kind only
        if quiet {
            let k = std::mem::replace(&mut self.log.keep, false);
            self.log.ev(&got);
            self.log.keep = k;
        } else {
            self.log.ev(format!("{what} h{h} {proto:?} {ip}:{port} -> {got} (model {exp:?})"));
            self.log.tag(&got);
        }
        match (&exp, res) {
            (BindExp::Ok, Ok(s)) | (BindExp::Either, Ok(s)) => {
                let la = match self.local_of(h, &s) {
                    Ok(a) => a,
                    Err(e) => {
                        self.d.on(h, || drop(s));
                        self.fail("LocalAddr", format!("{what}: local_addr of a freshly bound socket fails with {}", ek(&e)));
                        return None;
                    }
                };
                let mut bad = None;
                if la.ip() != ip {
                    bad = Some(("LocalAddr", format!("{what}: bound {ip}:{port} but local_addr says {la}")));
                } else if port != 0 && la.port() != port {
                    bad = Some(("LocalAddr", format!("{what}: bound {ip}:{port} but local_addr says {la}")));
                } else if port == 0 && !in_eph(la.port()) {
                    bad = Some(("EphemeralOutOfRange", format!("{what}: port 0 yielded {} outside {EPH_LO}..={EPH_HI}", la.port())));
                } else if port == 0 && self.m.port_in_use(h, proto, ip.is_ipv4(), la.port()) {
                    bad = Some(("EphemeralPortInUse", format!("{what}: h{h} {proto:?} {ip}:0 yielded port {} which a live {proto:?} socket of that family already uses", la.port())));
                }
                if let Some((c, msg)) = bad {
                    self.d.on(h, || drop(s));
                    self.fail(c, msg);
                    return None;
                }
                if port == 0 {
                    if let Some(prev) = self.last_zero_port[h] {
                        if la.port() < prev {
                            self.rep.probes.inc("ephemeral_cursor_wrapped");
                        }
                    }
                    self.last_zero_port[h] = Some(la.port());
                }
                if exp == BindExp::Either {
                    self.rep.probes.inc("cross_family_wildcard_unjudged");
                }
                Some((s, la))
            }
            (BindExp::Either, Err(e)) => {
                self.rep.probes.inc("cross_family_wildcard_unjudged");
                if ek(&e) != "AddrInUse" {
                    self.fail("BindErrorKind", format!("{what}: h{h} {proto:?} {ip}:{port} failed with {} (AddrInUse or success admissible)", ek(&e)));
                }
                None
            }
            (BindExp::Ok, Err(e)) => {
                self.fail("BindSpuriousError", format!("{what}: h{h} {proto:?} {ip}:{port} failed with {} but the address is local and no live {proto:?} socket conflicts on the port", ek(&e)));
                None
            }
            (BindExp::Err(kinds), Ok(s)) => {
                self.d.on(h, || drop(s));
                self.fail("BindWronglyOk", format!("{what}: h{h} {proto:?} {ip}:{port} succeeded but the model demands {kinds:?}"));
                None
            }
            (BindExp::Err(kinds), Err(e)) => {
                let k = ek(&e);
                if !kinds.iter().any(|x| *x == k) {
                    self.fail("BindErrorKind", format!("{what}: h{h} {proto:?} {ip}:{port} failed with {k}, expected one of {kinds:?}"));
                } else {
                    self.rep.probes.inc(&format!("bind_{k}"));
                    if port == 0 && k == "AddrInUse" {
                        self.rep.probes.inc("ephemeral_exhausted");
                    }
                }
                None
            }
        }
    }

    fn resolve_port(&self, p: &PortRef) -> Option<u16> {
        match p {
            PortRef::Fixed(p) => Some(*p),
            PortRef::Of(id) => self.real.get(id).and_then(|(h, _)| self.m.get(*h, *id)).map(|s| s.local.port()),
        }
    }

    // ------------------------------------------------------------------------------------------
    // steps

    fn step(&mut self, i: usize, st: &Step) {
        match st {
            Step::Bind { id, host, proto, ip, port } => {
                let ip = parse_ip(ip);
                if let Some((s, la)) = self.bind_judged(&format!("#{i} bind id{id}"), false, *host, *proto, ip, *port) {
                    let role = match proto {
                        Proto::Udp => Role::Udp { peer: None },
                        Proto::Tcp => Role::Listener,
                    };
                    self.m.add(*host, MSock { id: *id, proto: *proto, local: la, role });
                    self.real.insert(*id, (*host, s));
                }
            }
            Step::UdpConnect { sock, ip, port } => {
                let ip = parse_ip(ip);
                let Some(port) = self.resolve_port(port) else {
                    self.log.ev(format!("#{i} uconn skipped (target gone)"));
                    return;
                };
                let Some((h, RSock::Udp(u))) = self.real.get(sock) else {
                    self.log.ev(format!("#{i} uconn skipped (socket gone)"));
                    return;
                };
                let h = *h;
                let local = self.m.get(h, *sock).expect("model has it").local;
                if local.ip().is_ipv4() != ip.is_ipv4() || port == 0 {
                    self.log.ev(format!("#{i} uconn skipped (family)"));
                    return;
                }
                let peer = SocketAddr::new(ip, port);
                let r = self.d.once(h, u.connect(peer));
                match r {
                    Some(Ok(())) => {
                        self.log.ev(format!("#{i} uconn id{sock} -> {peer} Ok"));
                        self.log.tag("uconn");
                        if let Some(ms) = self.m.get_mut(h, *sock) {
                            ms.role = Role::Udp { peer: Some(peer) };
                        }
                        self.rep.probes.inc("udp_connected");
                    }
                    Some(Err(e)) => {
                        // the text does not say when a UDP connect may fail: recorded, not judged
                        self.log.ev(format!("#{i} uconn id{sock} -> {peer} {}", ek(&e)));
                        self.rep.probes.inc("udp_connect_error_unjudged");
                    }
                    None => self.herr = Some("udp connect pending".into()),
                }
            }
            Step::TcpConnect { id, host, ip, port, synack_hold } => {
                let ip = parse_ip(ip);
                let Some(port) = self.resolve_port(port) else {
                    self.log.ev(format!("#{i} tconn skipped (target gone)"));
                    return;
                };
                if port == 0 {
                    return;
                }
                self.tcp_connect_step(i, *id, *host, SocketAddr::new(ip, port), *synack_hold);
            }
            Step::Close { sock } => self.close_step(i, *sock),
            Step::CloseNoSettle { sock } => {
                let is_stream = self.real.get(sock).map(|(_, s)| matches!(s, RSock::Stream(_))).unwrap_or(false);
                if is_stream && *sock < SRV {
                    if let Some((h, s)) = self.real.remove(sock) {
                        if let Some(p) = self.m.get(h, *sock).map(|x| x.local.port()) {
                            self.lingering.push((h, p));
                        }
                        self.d.on(h, || drop(s));
                        self.m.remove(h, *sock);
                        self.log.ev(format!("#{i} close id{sock} on h{h}, no wire round: the connection lingers in the stack"));
                        self.log.tag("closens");
                        self.rep.faults.inc("stream_dropped_and_left_lingering_while_ports_are_allocated");
                    }
                } else {
                    self.log.ev(format!("#{i} closens id{sock} skipped"));
                }
            }
            Step::Spin { host, n } => {
                let h = *host;
                let ip: IpAddr = "0.0.0.0".parse().unwrap();
                let mut done = 0u32;
                for k in 0..*n {
                    if self.m.free_ephemeral(h, Proto::Udp, true) == 0 {
                        break;
                    }
                    let r = self.bind_judged("spin", k >= 2, h, Proto::Udp, ip, 0);
                    match r {
                        Some((s, _)) => {
                            self.d.on(h, || drop(s));
                            done += 1;
                        }
                        None => break,
                    }
                }
                self.log.ev(format!("#{i} spin h{h} x{done}"));
                self.log.tag("spin");
            }
            Step::Fill { host, proto, ip, first, count } => {
                let ip = parse_ip(ip);
                let mut ports = BTreeSet::new();
                for k in 0..*count {
                    let p = *first as u32 + k;
                    if p > 65535 {
                        break;
                    }
                    // the bulk set is registered incrementally so that the model sees it
                    let r = self.bind_judged("fill", k >= 2, *host, *proto, ip, p as u16);
                    if let Some((s, la)) = r {
                        ports.insert(la.port());
                        self.bulk_real.push((*host, *proto, la, s));
                        self.bulk_add(*host, *proto, ip, la.port());
                    }
                    if self.stopped() {
                        break;
                    }
                }
                self.log.ev(format!("#{i} fill h{host} {proto:?} {ip} {}..+{} bound {}", first, count, ports.len()));
                self.log.tag("fill");
                self.rep.probes.add("bulk_binds", ports.len() as u64);
            }
            Step::Reopen { host, proto, ip, back } => self.reopen_step(i, *host, *proto, parse_ip(ip), *back),
            Step::CloseDuringHandshake { host, ip, port, listener } => {
                let Some(port) = self.resolve_port(port) else {
                    self.log.ev(format!("#{i} closehs skipped (target gone)"));
                    return;
                };
                if port != 0 {
                    self.close_during_handshake(i, *host, SocketAddr::new(parse_ip(ip), port), *listener);
                }
            }
            Step::HalfOpenTimeout { host, ip, port, listener } => {
                let Some(port) = self.resolve_port(port) else {
                    self.log.ev(format!("#{i} halfopen skipped (target gone)"));
                    return;
                };
                if port != 0 {
                    self.half_open_timeout(i, *host, SocketAddr::new(parse_ip(ip), port), *listener);
                }
            }
            Step::ZeroMany { host, proto, ip, max } => {
                let ip = parse_ip(ip);
                let mut okc = 0;
                for _k in 0..*max {
                    let free_before = self.m.free_ephemeral(*host, *proto, ip.is_ipv4());
                    let r = self.bind_judged("zero", false, *host, *proto, ip, 0);
                    match r {
                        Some((s, la)) => {
                            okc += 1;
                            self.bulk_real.push((*host, *proto, la, s));
                            self.bulk_add(*host, *proto, ip, la.port());
                        }
                        None => {
                            if free_before == 0 && !self.stopped() {
                                self.log.ev(format!("#{i} zeros: range exhausted after {okc} more binds, AddrInUse as required"));
                            }
                            break;
                        }
                    }
                }
                self.log.ev(format!("#{i} zeros h{host} {proto:?} {ip} ok {okc}"));
                self.log.tag("zeros");
            }
        }
    }

    fn reopen_step(&mut self, i: usize, h: usize, proto: Proto, ip: IpAddr, back: u32) {
        let Some(last) = self.last_zero_port[h] else {
            self.log.ev(format!("#{i} reopen skipped (no ephemeral allocation yet)"));
            return;
        };
        let off = (last - EPH_LO) as u32;
        let target = EPH_LO + ((off + EPH_SIZE as u32 - back % EPH_SIZE as u32) % EPH_SIZE as u32) as u16;
        let Some(pos) = self.bulk_real.iter().position(|(bh, bp, la, _)| *bh == h && *bp == proto && la.port() == target && la.is_ipv4() == ip.is_ipv4()) else {
            self.log.ev(format!("#{i} reopen skipped (port {target} is not held by a range-filling socket)"));
            return;
        };
        let (_, _, la, s) = self.bulk_real.remove(pos);
        self.d.on(h, || drop(s));
        for b in self.m.hosts[h].bulk.iter_mut().filter(|b| b.proto == proto && b.ip == la.ip()) {
            b.ports.remove(&target);
        }
        let free = self.m.free_ephemeral(h, proto, ip.is_ipv4());
        self.log.ev(format!("#{i} reopen h{h} {proto:?}: closed the socket on port {target} ({back} behind the last allocated port {last}); free ephemeral ports now {free}"));
        self.log.tag("reopen");
        if free == 1 {
            self.rep.probes.inc(if back == 0 { "single_hole_just_behind_cursor" } else { "single_hole_elsewhere" });
        }
        for _ in 0..2 {
            match self.bind_judged("reopen-zero", false, h, proto, ip, 0) {
                Some((s, la)) => {
                    self.bulk_real.push((h, proto, la, s));
                    self.bulk_add(h, proto, ip, la.port());
                    self.rep.probes.inc("single_hole_found");
                }
                None => break,
            }
            if self.stopped() {
                return;
            }
        }
    }

    fn close_during_handshake(&mut self, i: usize, h: usize, dst: SocketAddr, lid: u32) {
        let v4 = dst.is_ipv4();
        let exp = self.m.route_syn(h, dst);
        let SynExp::Listener(dh, routed) = exp else {
            self.log.ev(format!("#{i} closehs skipped (no listener for {dst})"));
            return;
        };
        // sibling mode: the listener that is closed is another one on the same host and port (under another specific
        // address); the handshake in flight belongs to `routed`, which stays open and must still get its connection
        let sibling = routed != lid
            && self.m.get(dh, lid).map(|s| s.role == Role::Listener && s.local.port() == dst.port() && s.local.is_ipv4() == v4 && !s.local.ip().is_unspecified() && s.local.ip() != dst.ip()).unwrap_or(false)
            && self.m.get(dh, routed).map(|s| !s.local.ip().is_unspecified()).unwrap_or(false);
        if (routed != lid && !sibling) || dh == h || dst.ip().is_loopback() || !self.m.has_family(h, v4) || self.may_self_connect(h, dst) || self.m.free_ephemeral(h, Proto::Tcp, v4) < 64 {
            self.log.ev(format!("#{i} closehs skipped"));
            return;
        }
        let wild = self.m.get(dh, lid).map(|s| s.local.ip().is_unspecified()).unwrap_or(false);
        let mut fut: Option<ConnFut> = Some(Box::pin(TcpStream::connect(dst)));
        let flag = WakeFlag::new();
        let mut res = None;
        let mut held: Vec<Packet> = Vec::new();
        for _ in 0..4 {
            if flag.take() {
                if let Poll::Ready(x) = self.d.poll_fut(h, &flag.waker, fut.as_mut().unwrap().as_mut()) {
                    res = Some(x);
                    break;
                }
            }
            self.round(|p| kind(p) == PktKind::SynAck, &mut held);
            if !held.is_empty() {
                break;
            }
        }
        if held.is_empty() || res.is_some() {
            let f = fut.take();
            self.d.on(h, || drop(f));
            if let Some(Ok(st)) = res {
                self.d.on(h, || drop(st));
            }
            self.settle(12);
            self.log.ev(format!("#{i} closehs: handshake could not be caught in flight"));
            return;
        }
        // the handshake is in flight (the server holds a half-open child): close the listener now
        if let Some((lh, s)) = self.real.remove(&lid) {
            self.d.on(lh, || drop(s));
            self.m.remove(lh, lid);
        }
        self.rep.faults.inc("listener_closed_with_handshake_in_flight");
        if wild {
            self.rep.faults.inc("wildcard_listener_closed_with_handshake_in_flight");
        }
        for p in held.drain(..) {
            self.d.deliver(p);
        }
        let cap = self.sc.cfg.give_up_rounds() as usize + 6;
        for _ in 0..cap {
            if flag.take() {
                if let Poll::Ready(x) = self.d.poll_fut(h, &flag.waker, fut.as_mut().unwrap().as_mut()) {
                    res = Some(x);
                    break;
                }
            }
            self.plain_round();
        }
        let f = fut.take();
        self.d.on(h, || drop(f));
        let kindr = match &res {
            None => "Pending".to_string(),
            Some(Ok(_)) => "Ok".to_string(),
            Some(Err(e)) => ek(e),
        };
        // the outcome for the connector is not judged (it may see the SYN-ACK before the reset);
        // what is judged afterwards: the port is free again, nobody accepts or answers on it
        self.log.ev(format!("#{i} closehs h{h} -> {dst}: listener id{lid} on h{dh} closed mid-handshake, connector got {kindr}"));
        self.log.tag("closehs");
        if sibling {
            self.rep.faults.inc("sibling_listener_on_the_same_port_closed_with_handshake_in_flight");
            self.settle(4);
            let got = self.accept_all();
            let mine = got.iter().filter(|(l, ah, _, _)| *l == routed && *ah == dh).count();
            let ok = matches!(res, Some(Ok(_)));
            for (_, ah, s, _) in got {
                self.d.on(ah, || drop(s));
            }
            if let Some(Ok(st)) = res {
                self.d.on(h, || drop(st));
            }
            self.settle(12);
            if !ok || mine != 1 {
                let msg = format!("#{i}: while a handshake h{h} -> {dst} was in flight, the listener id{lid} on the same port under another address of h{dh} was closed; the connect gave {kindr} and listener id{routed} handed out {mine} connection(s) — the other listener's close must not touch it");
                self.fail("TcpSiblingListenerClose", msg);
            }
            return;
        }
        if let Some(Ok(st)) = res {
            self.d.on(h, || drop(st));
        }
        self.settle(12);
        let stray = self.accept_all();
        if let Some((l, ah, _, peer)) = stray.first() {
            let msg = format!("#{i}: listener id{l} on h{ah} accepted the connection from {peer} that was made to the closed listener id{lid}");
            self.fail("TcpMisaccept", msg);
        }
        for (_, ah, s, _) in stray {
            self.d.on(ah, || drop(s));
        }
    }

    fn half_open_timeout(&mut self, i: usize, h: usize, dst: SocketAddr, lid: u32) {
        let v4 = dst.is_ipv4();
        let SynExp::Listener(dh, routed) = self.m.route_syn(h, dst) else {
            self.log.ev(format!("#{i} halfopen skipped (no listener for {dst})"));
            return;
        };
        if routed != lid || dh == h || dst.ip().is_loopback() || !self.m.has_family(h, v4) || self.may_self_connect(h, dst) || self.m.free_ephemeral(h, Proto::Tcp, v4) < 64 {
            self.log.ev(format!("#{i} halfopen skipped"));
            return;
        }
        let mut fut: Option<ConnFut> = Some(Box::pin(TcpStream::connect(dst)));
        let flag = WakeFlag::new();
        let mut res = None;
        let mut syn_src: Option<SocketAddr> = None;
        let mut lost: Vec<Packet> = Vec::new();
        let cap = 2 * self.sc.cfg.give_up_rounds() as usize + 8;
        for _ in 0..cap {
            if res.is_none() && flag.take() {
                if let Poll::Ready(x) = self.d.poll_fut(h, &flag.waker, fut.as_mut().unwrap().as_mut()) {
                    res = Some(x);
                }
            }
            self.round(
                |p| {
                    let (sp, dp) = ports(p);
                    let (src, to) = (SocketAddr::new(p.src, sp), SocketAddr::new(p.dst, dp));
                    match syn_src {
                        None if kind(p) == PktKind::Syn && to == dst => {
                            syn_src = Some(src);
                            false
                        }
                        Some(a) => (src == a && to == dst) || (to == a && sp == dst.port()),
                        None => false,
                    }
                },
                &mut lost,
            );
        }
        self.rep.faults.add("packets_lost_around_a_half_open_child", lost.len() as u64);
        lost.clear();
        let f = fut.take();
        self.d.on(h, || drop(f));
        let kindr = match &res {
            None => "Pending".to_string(),
            Some(Ok(_)) => "Ok".to_string(),
            Some(Err(e)) => ek(e),
        };
        if let Some(Ok(st)) = res {
            self.d.on(h, || drop(st));
        }
        self.log.ev(format!("#{i} halfopen h{h} -> {dst}: only the first SYN got through, connector got {kindr}"));
        self.log.tag("halfopen");
        self.rep.faults.inc("half_open_child_left_to_time_out");
        self.settle(12);
        let stray = self.accept_all();
        if let Some((l, ah, _, peer)) = stray.first() {
            let msg = format!("#{i}: listener id{l} on h{ah} accepted a connection from {peer} whose handshake never completed");
            self.fail("TcpMisaccept", msg);
        }
        for (_, ah, s, _) in stray {
            self.d.on(ah, || drop(s));
        }
    }

    fn bulk_add(&mut self, h: usize, proto: Proto, ip: IpAddr, port: u16) {
        let m = &mut self.m.hosts[h];
        if let Some(b) = m.bulk.iter_mut().find(|b| b.proto == proto && b.ip == ip) {
            b.ports.insert(port);
        } else {
            m.bulk.push(Bulk { proto, ip, ports: [port].into_iter().collect() });
        }
    }

    fn has_bulk(&self, h: usize) -> bool {
        !self.m.hosts[h].bulk.is_empty()
    }

    fn close_step(&mut self, i: usize, sock: u32) {
        let base = if sock >= SRV { sock - SRV } else { sock };
        let is_conn = self.real.get(&base).map(|(_, s)| matches!(s, RSock::Stream(_))).unwrap_or(false);
        let ids: Vec<u32> = if is_conn {
            if i % 2 == 0 {
                vec![base, base + SRV]
            } else {
                vec![base + SRV, base]
            }
        } else {
            vec![sock]
        };
        let mut any = false;
        let mut closed_stream = false;
        for (k, id) in ids.into_iter().enumerate() {
            // half of the connection closes are sequential: the first end closes, the wire settles, and only then
            // the other end follows as the passive closer (its host says nothing of its own accord afterwards)
            if k == 1 && any && (i / 2) % 2 == 0 {
                self.settle(8);
                self.rep.probes.inc("connection_closed_one_end_after_the_other");
            }
            if let Some((h, mut s)) = self.real.remove(&id) {
                if matches!(s, RSock::Stream(_)) {
                    closed_stream = true;
                }
                // every third close of a stream shuts its write side down first (half-close, then drop)
                if i % 3 == 0 {
                    if let RSock::Stream(st) = &mut s {
                        use tokio::io::AsyncWrite;
                        let r = self.d.with_cx(h, &self.accept_flag.waker, |cx| Pin::new(st).poll_shutdown(cx));
                        self.rep.probes.inc("stream_shut_down_before_close");
                        self.log.ev(format!("#{i} shutdown id{id} on h{h} -> {:?}", matches!(r, Poll::Ready(Ok(())))));
                    }
                }
                self.d.on(h, || drop(s));
                self.m.remove(h, id);
                any = true;
                self.log.ev(format!("#{i} close id{id} on h{h}"));
            }
        }
        if any {
            self.log.tag("close");
            self.rep.probes.inc("closed");
            // (also the surviving end of a connection whose other end was dropped earlier without a wire round)
            if is_conn || closed_stream {
                self.settle(12);
            }
        } else {
            self.log.ev(format!("#{i} close id{sock} skipped (not live)"));
        }
    }

    /// Poll `poll_accept` on every live listener until pending; returns (listener id, host, stream, peer).
    fn accept_all(&mut self) -> Vec<(u32, usize, TcpStream, SocketAddr)> {
        let mut out = Vec::new();
        for (id, (h, s)) in self.real.iter() {
            if let RSock::Listener(l) = s {
                loop {
                    match self.d.with_cx(*h, &self.accept_flag.waker, |cx| l.poll_accept(cx)) {
                        Poll::Ready(Ok((st, peer))) => out.push((*id, *h, st, peer)),
                        Poll::Ready(Err(_)) | Poll::Pending => break,
                    }
                }
            }
        }
        out
    }

    fn tcp_connect_step(&mut self, i: usize, id: u32, h: usize, dst: SocketAddr, synack_hold: u8) {
        let v4 = dst.is_ipv4();
        if !dst.ip().is_loopback() && !self.m.has_family(h, v4) {
            self.log.ev(format!("#{i} tconn skipped (host has no address of that family)"));
            return;
        }
        if self.m.free_ephemeral(h, Proto::Tcp, v4) < 64 {
            return;
        }
        let exp = self.m.route_syn(h, dst);
        if exp == SynExp::Unjudged {
            self.rep.probes.inc("cross_family_wildcard_unjudged");
            return;
        }
        if self.may_self_connect(h, dst) {
            self.rep.probes.inc("self_connect_avoided");
            self.log.ev(format!("#{i} tconn skipped (could connect to itself)"));
            return;
        }
        // the hold must stay inside the retransmit budget of both ends
        let t = self.sc.cfg.retx_threshold as usize;
        let synack_hold = if self.sc.cfg.retx_max >= 3 { (synack_hold as usize).min(t + 1) as u8 } else { 0 };
        let mut fut: Option<ConnFut> = Some(Box::pin(TcpStream::connect(dst)));
        let flag = WakeFlag::new();
        let cap = self.sc.cfg.give_up_rounds() as usize + synack_hold as usize + 6;
        let mut res = None;
        let mut held: Vec<(usize, Packet)> = Vec::new();
        let mut held_once = false;
        for r in 0..cap {
            if flag.take() {
                if let Poll::Ready(x) = self.d.poll_fut(h, &flag.waker, fut.as_mut().unwrap().as_mut()) {
                    res = Some(x);
                    break;
                }
            }
            // release held packets that are due
            let (due, rest): (Vec<_>, Vec<_>) = held.drain(..).partition(|(at, _)| *at <= r);
            held = rest;
            for (_, p) in due {
                self.d.deliver(p);
            }
            let mut newly = Vec::new();
            let hold_now = synack_hold > 0 && !held_once;
            self.round(|p| hold_now && kind(p) == PktKind::SynAck, &mut newly);
            if !newly.is_empty() {
                held_once = true;
                self.rep.faults.add("synack_held", newly.len() as u64);
                for p in newly {
                    held.push((r + synack_hold as usize, p));
                }
            }
        }
        for (_, p) in held.drain(..) {
            self.d.deliver(p);
        }
        // a still-pending connect is cancelled here, on its own host (its guard closes the fd)
        let f = fut.take();
        self.d.on(h, || drop(f));
        let kindr = match &res {
            None => "Pending".to_string(),
            Some(Ok(_)) => "Ok".to_string(),
            Some(Err(e)) => ek(e),
        };
        self.log.ev(format!("#{i} tconn id{id} h{h} -> {dst} : {kindr} (model {exp:?})"));
        self.log.tag(&format!("tconn-{kindr}"));
        match (exp, res) {
            (SynExp::Listener(dh, lid), Some(Ok(st))) => {
                let (la, pa) = self.d.on(h, || (st.local_addr(), st.peer_addr()));
                let (Ok(la), Ok(pa)) = (la, pa) else {
                    self.d.on(h, || drop(st));
                    self.fail("LocalAddr", format!("#{i}: connected stream cannot tell its addresses"));
                    return;
                };
                if let Some(msg) = self.client_addr_problem(h, dst, la, pa) {
                    self.d.on(h, || drop(st));
                    self.fail(msg.0, format!("#{i} connect h{h} -> {dst}: {}", msg.1));
                    return;
                }
                // handshake ACK travels; then the named listener, and only it, hands the connection out
                let mut acc = Vec::new();
                for _ in 0..(self.sc.cfg.give_up_rounds() as usize + 4) {
                    self.plain_round();
                    acc.extend(self.accept_all());
                    if !acc.is_empty() {
                        break;
                    }
                }
                self.plain_round();
                acc.extend(self.accept_all());
                let mut mine = None;
                let mut problem = None;
                for (l, ah, s, peer) in acc {
                    let sl = self.d.on(ah, || s.local_addr());
                    if l == lid && ah == dh && peer == la && sl.as_ref().ok() == Some(&dst) && mine.is_none() {
                        mine = Some(s);
                    } else {
                        problem = Some(format!("listener id{l} on h{ah} accepted a connection (local {:?}, peer {peer}) that the model does not route to it (connect h{h} {la} -> {dst} belongs to listener id{lid} on h{dh})", sl.ok()));
                        self.d.on(ah, || drop(s));
                    }
                }
                if let Some(p) = problem {
                    self.d.on(h, || drop(st));
                    if let Some(s) = mine {
                        self.d.on(dh, || drop(s));
                    }
                    self.fail("TcpMisaccept", format!("#{i}: {p}"));
                    return;
                }
                let Some(srv) = mine else {
                    self.d.on(h, || drop(st));
                    self.fail("TcpNotAccepted", format!("#{i}: connect h{h} {la} -> {dst} returned Ok but listener id{lid} on h{dh} never handed the connection out"));
                    return;
                };
                self.m.add(h, MSock { id, proto: Proto::Tcp, local: la, role: Role::Conn { remote: dst } });
                self.m.add(dh, MSock { id: id + SRV, proto: Proto::Tcp, local: dst, role: Role::Conn { remote: la } });
                self.real.insert(id, (h, RSock::Stream(st)));
                self.real.insert(id + SRV, (dh, RSock::Stream(srv)));
                self.rep.probes.inc("tcp_established");
            }
            (SynExp::Listener(..), other) if kindr == "TimedOut" && self.lingering.iter().any(|(lh, _)| *lh == h) => {
                drop(other);
                self.rep.probes.inc("tcp_connect_from_a_host_with_a_lingering_connection_unjudged");
            }
            (SynExp::Listener(dh, lid), other) => {
                drop(other);
                let stray = self.accept_all();
                for (_, ah, s, _) in stray {
                    self.d.on(ah, || drop(s));
                }
                self.fail("TcpConnectResult", format!("#{i}: connect h{h} -> {dst} gave {kindr}; listener id{lid} on h{dh} is bound there, Ok required"));
            }
            (SynExp::Refused, Some(Err(e))) if ek(&e) == "ConnectionRefused" => {
                self.rep.probes.inc("tcp_refused");
            }
            (SynExp::Refused, other) => {
                if let Some(Ok(st)) = other {
                    self.d.on(h, || drop(st));
                }
                self.fail("TcpConnectResult", format!("#{i}: connect h{h} -> {dst} gave {kindr}; the owning host has no listener there, ConnectionRefused required"));
            }
            (SynExp::Unreachable, Some(Ok(st))) => {
                self.d.on(h, || drop(st));
                self.fail("TcpConnectResult", format!("#{i}: connect h{h} -> {dst} succeeded although nobody owns that address"));
            }
            (SynExp::Unreachable, _) => {
                self.rep.probes.inc("tcp_unreachable");
            }
            (SynExp::Unjudged, _) => {}
        }
        if !self.stopped() {
            let stray = self.accept_all();
            if let Some((l, ah, _, peer)) = stray.first() {
                let msg = format!("#{i}: listener id{l} on h{ah} accepted a connection from {peer} nobody made to it");
                self.fail("TcpMisaccept", msg);
            }
            for (_, ah, s, _) in stray {
                self.d.on(ah, || drop(s));
            }
        }
        self.settle(8);
    }

    /// A connect to an ephemeral port that the destination host's allocator may hand to one of its
    /// own connecting sockets at the same time (to the connecting socket itself when the
    /// destination is local: TCP self-connect; to a concurrent probe otherwise) is a simultaneous
    /// open; the property does not speak about it, so such attempts are not made.
    fn may_self_connect(&self, h: usize, dst: SocketAddr) -> bool {
        match self.m.dest_host(h, dst.ip()) {
            Some(dh) => in_eph(dst.port()) && !self.m.port_in_use(dh, Proto::Tcp, dst.is_ipv4(), dst.port()),
            None => false,
        }
    }

    /// Checks on the client end of a fresh connection: peer is the destination, the local address
    /// is one of the host's own of the right family and its port is a fresh ephemeral one.
    fn client_addr_problem(&self, h: usize, dst: SocketAddr, la: SocketAddr, pa: SocketAddr) -> Option<(&'static str, String)> {
        if pa != dst {
            return Some(("LocalAddr", format!("peer_addr is {pa}")));
        }
        if la.is_ipv4() != dst.is_ipv4() || !self.m.is_local(h, la.ip()) {
            return Some(("LocalAddr", format!("local_addr {la} is not an address of the connecting host")));
        }
        if !in_eph(la.port()) {
            return Some(("EphemeralOutOfRange", format!("client port {} outside the ephemeral range", la.port())));
        }
        if self.m.port_in_use(h, Proto::Tcp, la.is_ipv4(), la.port()) {
            return Some(("EphemeralPortInUse", format!("client port {} is already used by a live TCP socket of h{h}", la.port())));
        }
        None
    }

    // ------------------------------------------------------------------------------------------
    // the probe sweep

    fn all_ips(&self) -> Vec<IpAddr> {
        let mut v: Vec<IpAddr> = self.d.addrs.iter().flatten().copied().collect();
        v.push("127.0.0.1".parse().unwrap());
        v.push("::1".parse().unwrap());
        // every address of 127.0.0.0/8 is the host itself
        v.push("127.0.0.2".parse().unwrap());
        for u in &self.sc.unknown {
            v.push(parse_ip(u));
        }
        v
    }

    fn sweep(&mut self, after: usize) {
        self.sweep_no += 1;
        self.log.ev(format!("-- sweep {} after #{after}", self.sweep_no));
        if self.m.port_shared() {
            self.nontrivial = true;
            self.rep.probes.inc("sweep_with_shared_port");
        }
        self.sweep_udp();
        if self.sc.sweep_tcp && !self.stopped() {
            self.sweep_tcp();
        }
    }

    fn ports_of_interest(&self, limit: usize) -> Vec<u16> {
        let mut set = BTreeSet::new();
        for m in &self.m.hosts {
            for s in &m.socks {
                if s.id < PROBER {
                    set.insert(s.local.port());
                }
            }
        }
        let mut v: Vec<u16> = set.into_iter().take(limit).collect();
        v.push(self.sc.extra_port);
        v
    }

    fn sweep_udp(&mut self) {
        let nh = self.d.hosts.len();
        let ips = self.all_ips();
        let ports = self.ports_of_interest(7);
        // per-host ephemeral probers, one per family (they are ordinary sockets: bound through the
        // judged path and part of the model while they live)
        let mut probers = Vec::new();
        for h in 0..nh {
            if self.has_bulk(h) {
                continue;
            }
            for (f, wild) in ["0.0.0.0", "::"].iter().enumerate() {
                let id = PROBER + self.sweep_no * 100 + (h * 2 + f) as u32;
                let r = self.bind_judged("prober", true, h, Proto::Udp, parse_ip(wild), 0);
                if let Some((s, la)) = r {
                    self.m.add(h, MSock { id, proto: Proto::Udp, local: la, role: Role::Udp { peer: None } });
                    self.real.insert(id, (h, s));
                    probers.push((h, id));
                }
                if self.stopped() {
                    return;
                }
            }
        }
        // send
        struct Probe {
            tag: u64,
            from_h: usize,
            from_id: u32,
            src_ip: Option<IpAddr>,
            sport: u16,
            dst: SocketAddr,
            exp: UdpExp,
        }
        let mut sent: Vec<Probe> = Vec::new();
        for h in 0..nh {
            let sources: Vec<MSock> = self.m.hosts[h].socks.iter().filter(|s| s.proto == Proto::Udp).cloned().collect();
            for s in sources {
                let Role::Udp { peer } = &s.role else { continue };
                let lip = s.local.ip();
                let dsts: Vec<SocketAddr> = match peer {
                    Some(p) => vec![*p],
                    None => ips.iter().flat_map(|ip| ports.iter().map(move |p| SocketAddr::new(*ip, *p))).collect(),
                };
                for dst in dsts {
                    if dst.is_ipv4() != lip.is_ipv4() {
                        continue;
                    }
                    // cases the property text does not speak about: a loopback-bound socket sending
                    // off-host, a specifically bound socket sending to loopback, a wildcard socket
                    // on a host without an address of the destination family
                    let lo_dst = dst.ip().is_loopback();
                    // a loopback-bound socket sending off the loopback address: whether the datagram arrives is
                    // not stated, but it may reach nobody else than the socket the destination address and port
                    // select on the host that owns the address
                    let lo_off_host = lip.is_loopback() && !lo_dst;
                    if !lip.is_unspecified() && !lip.is_loopback() && lo_dst {
                        continue;
                    }
                    if lip.is_unspecified() && !lo_dst && !self.m.has_family(h, dst.is_ipv4()) {
                        continue;
                    }
                    self.tag += 1;
                    let tag = self.tag;
                    let src_ip = if lip.is_unspecified() { None } else { Some(lip) };
                    let mut exp = self.m.route_udp(h, src_ip, s.local.port(), dst);
                    if lo_off_host {
                        exp = match exp {
                            UdpExp::Exactly(Some(x)) => UdpExp::OneOf(vec![None, Some(x)]),
                            UdpExp::OneOf(mut v) => {
                                if !v.contains(&None) {
                                    v.push(None);
                                }
                                UdpExp::OneOf(v)
                            }
                            e => e,
                        };
                        self.rep.probes.inc("udp_probe_from_loopback_bound_socket_to_another_address");
                    }
                    let Some((_, RSock::Udp(u))) = self.real.get(&s.id) else { continue };
                    let bytes = tag_bytes(tag);
                    let r = self.d.on(h, || if peer.is_some() { u.try_send(&bytes) } else { u.try_send_to(&bytes, dst) });
                    match r {
                        Ok(8) => {}
                        other => {
                            // send results are not part of the property; a datagram that was not
                            // accepted cannot be expected anywhere
                            self.rep.probes.inc("udp_send_error_unjudged");
                            self.log.ev(format!("  send id{} -> {dst}: {:?}", s.id, other.map_err(|e| e.kind())));
                            exp = UdpExp::Exactly(None);
                        }
                    }
                    sent.push(Probe { tag, from_h: h, from_id: s.id, src_ip, sport: s.local.port(), dst, exp });
                }
            }
        }
        self.rep.probes.add("udp_probes", sent.len() as u64);
        // the wire
        for _ in 0..4 {
            if self.plain_round() == 0 {
                break;
            }
        }
        // observe
        let mut seen: BTreeMap<u64, Vec<(usize, u32, SocketAddr)>> = BTreeMap::new();
        let mut garbage = None;
        for (id, (h, s)) in self.real.iter() {
            if let RSock::Udp(u) = s {
                let mut b = [0u8; 64];
                loop {
                    match self.d.on(*h, || u.try_recv_from(&mut b)) {
                        Ok((n, from)) => match tag_of(&b[..n]) {
                            Some(t) => seen.entry(t).or_default().push((*h, *id, from)),
                            None => garbage = Some(format!("socket id{id} on h{h} received {n} bytes that are no probe")),
                        },
                        Err(_) => break,
                    }
                }
            }
        }
        if let Some(g) = garbage {
            self.fail("UdpStray", g);
            return;
        }
        let first_tag = sent.first().map(|p| p.tag).unwrap_or(u64::MAX);
        if let Some((t, obs)) = seen.iter().find(|(t, _)| **t < first_tag) {
            let msg = format!("probe tag {t} of an earlier sweep surfaced late at {obs:?}");
            self.fail("UdpStray", msg);
            return;
        }
        let mut delivered = 0u64;
        for p in &sent {
            let obs = seen.remove(&p.tag).unwrap_or_default();
            let who: Vec<Option<(usize, u32)>> = if obs.is_empty() { vec![None] } else { obs.iter().map(|(h, id, _)| Some((*h, *id))).collect() };
            let describe = format!(
                "probe {} from id{} (h{}, source port {}{}) to {}",
                p.tag,
                p.from_id,
                p.from_h,
                p.sport,
                p.src_ip.map(|i| format!(", bound to {i}")).unwrap_or_default(),
                p.dst
            );
            if who.len() > 1 {
                self.fail("UdpDuplicated", format!("{describe} was observed {} times: {obs:?}", who.len()));
                return;
            }
            let got = who[0];
            let ok = match &p.exp {
                UdpExp::Exactly(e) => *e == got,
                UdpExp::OneOf(v) => v.contains(&got),
            };
            if !ok {
                let class = match (&p.exp, got) {
                    (UdpExp::Exactly(Some(_)), None) => "UdpNotDelivered",
                    (UdpExp::Exactly(None), Some(_)) => "UdpLeaked",
                    _ => "UdpMisrouted",
                };
                let want = format!("{:?}", p.exp);
                self.fail(class, format!("{describe}: observed by {got:?} (host, socket id), model says {want}"));
                return;
            }
            if let Some((_, _, from)) = obs.first() {
                delivered += 1;
                let ip_ok = match p.src_ip {
                    Some(ip) => from.ip() == ip,
                    None => from.is_ipv4() == p.dst.is_ipv4() && self.m.is_local(p.from_h, from.ip()),
                };
                if from.port() != p.sport || !ip_ok {
                    self.fail("UdpWrongSource", format!("{describe}: receiver saw source {from}"));
                    return;
                }
            }
            if matches!(p.exp, UdpExp::OneOf(_)) {
                self.rep.probes.inc("udp_probe_unjudged");
            }
            if let Some((_, t)) = self.m.udp_binding_match(p.from_h, p.dst) {
                if matches!(t.role, Role::Udp { peer: Some(_) }) {
                    match (&p.exp, got) {
                        (UdpExp::Exactly(Some(_)), _) => self.rep.probes.inc("connected_udp_got_peer_datagram"),
                        (UdpExp::Exactly(None), _) => self.rep.probes.inc("connected_udp_filtered_non_peer"),
                        _ => {}
                    }
                } else if t.local.ip().is_unspecified() && got.is_some() {
                    self.rep.probes.inc("udp_delivered_via_wildcard");
                }
            }
            if self.m.dest_host(p.from_h, p.dst.ip()).is_none() {
                self.rep.probes.inc("udp_to_unknown_address");
            }
        }
        self.rep.probes.add("udp_probes_delivered", delivered);
        self.log.ev(format!("  udp sweep: {} probes, {} delivered", sent.len(), delivered));
        self.log.tag_u64(delivered);
        // connected sockets were exercised from peers and non-peers?
        for (h, id) in probers {
            if let Some((hh, s)) = self.real.remove(&id) {
                self.d.on(hh, || drop(s));
            }
            self.m.remove(h, id);
        }
    }

    fn sweep_tcp(&mut self) {
        let nh = self.d.hosts.len();
        let ips = self.all_ips();
        // TCP ports first, then others up to the limit
        let mut tcp_ports = BTreeSet::new();
        for m in &self.m.hosts {
            for s in &m.socks {
                if s.proto == Proto::Tcp && (s.role == Role::Listener || s.id >= SRV) {
                    tcp_ports.insert(s.local.port());
                }
            }
        }
        let mut ports: Vec<u16> = tcp_ports.into_iter().take(4).collect();
        for p in self.ports_of_interest(8) {
            if ports.len() < 6 && !ports.contains(&p) {
                ports.push(p);
            }
        }
        struct TP {
            h: usize,
            dst: SocketAddr,
            exp: SynExp,
            fut: Option<ConnFut>,
            flag: WakeFlag,
            res: Option<std::io::Result<TcpStream>>,
        }
        let mut probes: Vec<TP> = Vec::new();
        for h in 0..nh {
            if self.has_bulk(h) {
                continue;
            }
            for ip in &ips {
                if ip.is_loopback() {
                    // every host owns loopback: probing it from h stays on h
                } else if !self.m.has_family(h, ip.is_ipv4()) {
                    continue;
                }
                for p in &ports {
                    let dst = SocketAddr::new(*ip, *p);
                    let exp = self.m.route_syn(h, dst);
                    if exp == SynExp::Unjudged {
                        continue;
                    }
                    if self.may_self_connect(h, dst) {
                        self.rep.probes.inc("self_connect_avoided");
                        continue;
                    }
                    probes.push(TP { h, dst, exp, fut: Some(Box::pin(TcpStream::connect(dst))), flag: WakeFlag::new(), res: None });
                }
            }
        }
        self.rep.probes.add("tcp_probes", probes.len() as u64);
        let cap = self.sc.cfg.give_up_rounds() as usize + 8;
        let mut accepted: Vec<(u32, usize, TcpStream, SocketAddr)> = Vec::new();
        let mut after_done = 0;
        for _ in 0..cap {
            let mut pending = 0;
            for p in probes.iter_mut() {
                if p.res.is_some() {
                    continue;
                }
                if p.flag.take() {
                    let f = p.fut.as_mut().unwrap();
                    if let Poll::Ready(r) = self.d.poll_fut(p.h, &p.flag.waker, f.as_mut()) {
                        p.res = Some(r);
                        let f = p.fut.take();
                        self.d.on(p.h, || drop(f));
                        continue;
                    }
                }
                pending += 1;
            }
            self.plain_round();
            accepted.extend(self.accept_all());
            if pending == 0 {
                after_done += 1;
                if after_done >= 3 {
                    break;
                }
            }
        }
        // exchange data on the established connections of the history while the probe
        // connections to the same listeners are still open
        self.exchange();
        if self.stopped() {
            for p in probes.iter_mut() {
                let f = p.fut.take();
                self.d.on(p.h, || drop(f));
                if let Some(Ok(s)) = p.res.take() {
                    self.d.on(p.h, || drop(s));
                }
            }
            for (_, ah, s, _) in accepted {
                self.d.on(ah, || drop(s));
            }
            return;
        }
        // judge
        let mut used_ports: BTreeSet<(usize, bool, u16)> = BTreeSet::new();
        let mut verdict: Option<(&'static str, String)> = None;
        let mut client_streams: Vec<(usize, TcpStream)> = Vec::new();
        let mut okc = 0u64;
        for p in probes.iter_mut() {
            let f = p.fut.take();
            self.d.on(p.h, || drop(f));
            let res = p.res.take();
            let kindr = match &res {
                None => "Pending".to_string(),
                Some(Ok(_)) => "Ok".to_string(),
                Some(Err(e)) => ek(e),
            };
            let who = format!("TCP probe h{} -> {}", p.h, p.dst);
            match (&p.exp, res) {
                (SynExp::Listener(dh, lid), Some(Ok(st))) => {
                    okc += 1;
                    let (la, pa) = self.d.on(p.h, || (st.local_addr(), st.peer_addr()));
                    client_streams.push((p.h, st));
                    let (Ok(la), Ok(pa)) = (la, pa) else {
                        verdict.get_or_insert(("LocalAddr", format!("{who}: stream cannot tell its addresses")));
                        continue;
                    };
                    if let Some((c, m)) = self.client_addr_problem(p.h, p.dst, la, pa) {
                        verdict.get_or_insert((c, format!("{who}: {m}")));
                        continue;
                    }
                    if !used_ports.insert((p.h, la.is_ipv4(), la.port())) {
                        verdict.get_or_insert(("EphemeralPortInUse", format!("{who}: client port {} handed to two concurrent connections", la.port())));
                        continue;
                    }
                    let pos = accepted.iter().position(|(l, ah, s, peer)| l == lid && ah == dh && *peer == la && self.d.on(*ah, || s.local_addr()).ok() == Some(p.dst));
                    match pos {
                        Some(ix) => {
                            let (_, ah, s, _) = accepted.remove(ix);
                            client_streams.push((ah, s));
                        }
                        None => {
                            verdict.get_or_insert(("TcpNotAccepted", format!("{who} (client {la}) returned Ok but listener id{lid} on h{dh} did not hand it out")));
                        }
                    }
                }
                // a connection this host left lingering was given up silently; its accepted end may still be open on the
                // listener's host, and a probe that draws the same source port meets that stale connection
                (SynExp::Listener(..), _) if kindr == "TimedOut" && self.lingering.iter().any(|(lh, _)| *lh == p.h) => {
                    self.rep.probes.inc("tcp_probe_from_a_host_with_a_lingering_connection_unjudged");
                }
                (SynExp::Listener(dh, lid), _) => {
                    verdict.get_or_insert(("TcpConnectResult", format!("{who} gave {kindr}; listener id{lid} on h{dh} is bound there, Ok required")));
                }
                (SynExp::Refused, Some(Err(e))) if ek(&e) == "ConnectionRefused" => {}
                (SynExp::Refused, r) => {
                    if let Some(Ok(st)) = r {
                        client_streams.push((p.h, st));
                    }
                    verdict.get_or_insert(("TcpConnectResult", format!("{who} gave {kindr}; no listener there on the owning host, ConnectionRefused required")));
                }
                (SynExp::Unreachable, Some(Ok(st))) => {
                    client_streams.push((p.h, st));
                    verdict.get_or_insert(("TcpConnectResult", format!("{who} succeeded although nobody owns that address")));
                }
                (SynExp::Unreachable, _) => {}
                (SynExp::Unjudged, r) => {
                    if let Some(Ok(st)) = r {
                        client_streams.push((p.h, st));
                    }
                }
            }
        }
        if verdict.is_none() {
            if let Some((l, ah, s, peer)) = accepted.first() {
                let sl = self.d.on(*ah, || s.local_addr()).ok();
                verdict = Some(("TcpMisaccept", format!("listener id{l} on h{ah} handed out a connection (local {sl:?}, peer {peer}) that the model routes elsewhere or nowhere")));
            }
        }
        self.log.ev(format!("  tcp sweep: {} probes, {} connected", probes.len(), okc));
        self.log.tag_u64(okc);
        self.rep.probes.add("tcp_probes_connected", okc);
        // close the probe connections, alternating which side goes first
        if self.sweep_no % 2 == 0 {
            client_streams.reverse();
        }
        for (h, s) in client_streams {
            self.d.on(h, || drop(s));
        }
        for (_, ah, s, _) in accepted {
            self.d.on(ah, || drop(s));
        }
        self.settle(14);
        if let Some((c, m)) = verdict {
            self.fail(c, m);
        }
    }

    /// Every established connection of the history carries one tagged message each way; each end
    /// must read exactly its peer's message (established 4-tuple before listener, no cross-wiring).
    fn exchange(&mut self) {
        let pairs: Vec<u32> = self.real.keys().copied().filter(|id| *id < SRV && self.real.contains_key(&(id + SRV))).collect();
        let pairs: Vec<u32> = pairs.into_iter().filter(|id| matches!(self.real.get(id), Some((_, RSock::Stream(_))))).collect();
        if pairs.is_empty() {
            return;
        }
        let mut expect: Vec<(u32, u64)> = Vec::new();
        for id in &pairs {
            for (from, to) in [(*id, *id + SRV), (*id + SRV, *id)] {
                self.tag += 1;
                let t = self.tag;
                let (h, RSock::Stream(s)) = self.real.get(&from).unwrap() else { continue };
                let r = self.d.on(*h, || s.try_write(&tag_bytes(t)));
                if !matches!(r, Ok(8)) {
                    let msg = format!("write of 8 bytes on established connection id{from} gave {:?}", r.map_err(|e| e.kind()));
                    self.fail("StreamData", msg);
                    return;
                }
                expect.push((to, t));
            }
        }
        for _ in 0..3 {
            self.plain_round();
        }
        for (to, t) in expect {
            let (h, RSock::Stream(s)) = self.real.get(&to).unwrap() else { continue };
            let mut b = [0u8; 64];
            let r = self.d.on(*h, || s.try_read(&mut b));
            match r {
                Ok(8) if tag_of(&b[..8]) == Some(t) => {
                    self.rep.probes.inc("stream_messages_delivered");
                }
                other => {
                    let msg = format!("connection end id{to} on h{h} should read the 8-byte message {t} of its peer, got {:?} (bytes {:?})", other.map_err(|e| e.kind()), tag_of(&b[..8]));
                    self.fail("StreamData", msg);
                    return;
                }
            }
        }
    }
}

fn execute(cx: &mut Ctx<'_>) {
    let sc = cx.sc;
    let n = sc.steps.len();
    for (i, st) in sc.steps.iter().enumerate() {
        cx.step(i, st);
        if cx.stopped() {
            return;
        }
        if sc.sweep_every || i + 1 == n {
            cx.sweep(i);
            if cx.stopped() {
                return;
            }
        }
    }
    // a connection that was left lingering (dropped cleanly, its accepted end still open and silent) is given
    // up by the stack after its retransmit budget: afterwards its port can be bound again
    if !cx.lingering.is_empty() {
        let rounds = sc.cfg.give_up_rounds() as usize + 8;
        for _ in 0..rounds {
            cx.plain_round();
        }
        let lingering = std::mem::take(&mut cx.lingering);
        for (h, port) in lingering {
            for wild in ["0.0.0.0", "::"] {
                let ip = parse_ip(wild);
                if !cx.m.has_family(h, ip.is_ipv4()) || cx.m.port_in_use(h, Proto::Tcp, ip.is_ipv4(), port) {
                    continue;
                }
                if let Some((s, _)) = cx.bind_judged("after-linger", false, h, Proto::Tcp, ip, port) {
                    cx.d.on(h, || drop(s));
                    cx.rep.probes.inc("port_of_a_lingering_connection_bound_again_after_the_give_up_time");
                }
                if cx.stopped() {
                    return;
                }
            }
        }
    }
}

// ------------------------------------------------------------------------------------------------
// generator

fn host_addrs(rng: &mut Rng, h: usize) -> Vec<String> {
    let n = rng.usize(1, 3);
    let mut v = Vec::new();
    for k in 0..n {
        if rng.chance(2, 3) {
            v.push(format!("10.0.{h}.{}", k + 1));
        } else {
            v.push(format!("fd00::{h}:{}", k + 1));
        }
    }
    v
}

const FIXED_PORTS: [u16; 5] = [5000, 5001, 5002, 49152, 49153];

#[derive(Clone)]
struct Shadow {
    id: u32,
    host: usize,
    proto: Proto,
    ip: String,
    port: PortRef,
    conn: bool,
}

fn pick_bind_ip(rng: &mut Rng, hosts: &[Vec<String>], h: usize, unknown: &[String]) -> String {
    match rng.weighted(&[14, 10, 9, 6, 46, 10, 5]) {
        0 => "0.0.0.0".into(),
        1 => "::".into(),
        2 if rng.chance(1, 4) => (*rng.pick(&["127.0.0.2", "127.9.8.7"])).into(),
        2 => "127.0.0.1".into(),
        3 => "::1".into(),
        4 => rng.pick(&hosts[h]).clone(),
        5 => {
            let o = rng.below(hosts.len() as u64) as usize;
            rng.pick(&hosts[o]).clone()
        }
        _ => rng.pick(unknown).clone(),
    }
}

/// A concrete address under which a socket bound to `ip` on `host` is reachable from `from`.
fn reach_ip(rng: &mut Rng, hosts: &[Vec<String>], host: usize, ip: &str, from: usize) -> String {
    let v4 = !ip.contains(':');
    if ip == "0.0.0.0" || ip == "::" {
        let fam: Vec<&String> = hosts[host].iter().filter(|a| !a.contains(':') == v4).collect();
        if (from == host && rng.chance(1, 3)) || fam.is_empty() {
            return if v4 { "127.0.0.1".into() } else { "::1".into() };
        }
        return (*rng.pick(&fam)).clone();
    }
    ip.to_string()
}

impl Property for C17 {
    const ID: &'static str = "C17";
    const LEVEL: &'static str = "exploration";
    type Scenario = Scenario;

    fn rule() -> String {
        "seeded histories of 3-12 steps (UDP bind / TCP listener bind on wildcard, loopback, own specific, other hosts' and unknown addresses, v4 and v6, port 0 or a fixed port from a pool of 5 incl. two inside the ephemeral range; UDP connect to live or arbitrary peers; TCP connect (optionally with the SYN-ACK held on the wire so that the SYN is retransmitted) + accept; close; closing a listener (preferably a wildcard-bound one) while a handshake to it is in flight with its SYN-ACK kept on the wire, followed by a bind of the same address; ephemeral-cursor rotation by bind/drop incl. full wrap-around; in 1/4000 of the thorough scenarios and 3 fixed slots of the quick tier: filling the 16384-port range of one protocol and family, binding :0 until exhaustion, then re-opening single holes at seeded positions relative to the allocator's cursor (the port just behind it, its neighbours, anywhere) and binding :0 twice) on 1-3 hosts owning 1-3 addresses; after every step a probe sweep: uniquely tagged UDP datagrams from a fresh wildcard :0 socket per host and family and from every live UDP socket to every (address of every host + loopback + unknown, port of interest) pair, TCP connects from every host to the same destinations, one tagged message each way on every established connection; every result (bind Ok/error kind, chosen port, which socket observed which tag with which source, connect result, which listener accepted, addresses) is compared with the reference socket table written from the property text. Non-trivial: a sweep ran while >=2 live sockets shared a port number on one host; distinct = digest of step kinds, outcome kinds and per-sweep delivered counts. Added later: 127.0.0.2 / 127.9.8.7 as bind and destination addresses; loopback-bound UDP sockets probing every address (the datagram may reach the socket its destination selects or nobody, never anybody else); connection closes in which one end closes, the wire settles and only then the passive end follows, in scenarios that probe only at the end; half-open children left to time out (only the first SYN gets through) before their listener is closed and its port bound again; a connecting end dropped without any wire round while the allocator is rotated once round its range and port 0 is asked for (the lingering connection's own port is not judged).".into()
    }
    fn components_real() -> Vec<&'static str> {
        vec!["turmoil-net: Kernel::bind / PortAllocator / SocketTable (binding + connection index), udp::deliver, tcp::deliver + find_listener + accept_syn, Fabric::deliver routing by destination IP, loopback fold-back in Kernel::egress, shim UdpSocket / TcpListener / TcpStream"]
    }
    fn components_stub() -> Vec<&'static str> {
        vec!["the wire (egress_all -> deliver, SYN-ACK optionally held) and the hand-polled application steps are the harness's; no tokio runtime"]
    }
    fn assumptions() -> Vec<String> {
        vec![
            "IPv4 and IPv6 are modelled as separate port spaces; a wildcard of one family against a socket of the other family on the same port (dual-stack behaviour) is not specified by the property: bind outcome Ok/AddrInUse and delivery to that wildcard are recorded, not judged".into(),
            "port 0 must yield a port of the documented ephemeral range 49152..=65535 that no live socket of the same protocol and family uses; when the model says the range is full the bind must fail with AddrInUse".into(),
            "when both AddrNotAvailable and AddrInUse apply, either is accepted".into(),
            "source address selection of wildcard-bound senders is the stack's choice: the observed source must be an address of the sending host; a connected UDP receiver is judged only when the source certainly is / is not its peer".into(),
            "not generated (text silent): loopback-bound sockets sending off-host, specifically bound sockets sending to loopback, sends from a host without an address of the destination family, sends from a connected UDP socket to a non-peer, SO_REUSEADDR/SO_REUSEPORT (not exposed by the shim)".into(),
            "TCP connections are closed on both ends and the wire is run until quiet before the model frees their ports (reclamation timing is C13's subject); one step kind drops the connecting end and runs no wire round at all: while that connection lingers, binds to port 0 must still succeed (with a port the model has free), whatever the stack does with the lingering port".into(),
            "connect to an address nobody owns must not succeed and nobody may accept it; its error kind is not judged".into(),
        ]
    }
    fn budget(tier: Tier) -> u64 {
        match tier {
            Tier::Quick => 120_000,
            Tier::Thorough => 2_400_000,
        }
    }

    fn generate(rng: &mut Rng, idx: u64, tier: Tier) -> Scenario {
        let nh = rng.usize(1, 3);
        let hosts: Vec<Vec<String>> = (0..nh).map(|h| host_addrs(rng, h)).collect();
        let unknown = vec!["10.9.9.9".to_string(), "fd00::9:9".to_string()];
        let cfg = NetCfg { retx_threshold: rng.range(2, 3) as u32, retx_max: rng.range(1, 4) as u32, backlog: 64, recv_cap: 0 };
        // range exhaustion is expensive (the kernel scans its bindings per candidate port): one in
        // 4000 scenarios in the thorough tier, three fixed slots (slimmer) in the quick tier
        let exhaustion = (tier == Tier::Thorough && rng.chance(1, 4000)) || (tier == Tier::Quick && idx % 40_000 == 20_000);
        let mut steps = Vec::new();
        let mut shadow: Vec<Shadow> = Vec::new();
        let mut next_id = 1u32;
        let n = rng.usize(3, 12);
        for _ in 0..n {
            let k = rng.weighted(&[50, 9, 14, 20, 7, 7, 0, 5, 2, 2]);
            match k {
                0 => {
                    let host = rng.below(nh as u64) as usize;
                    let proto = if rng.chance(3, 5) { Proto::Udp } else { Proto::Tcp };
                    // re-use an address/port of a live socket half of the time: conflicts are the point
                    let (ip, port) = if !shadow.is_empty() && rng.chance(2, 5) {
                        let s = rng.pick(&shadow);
                        let ip = if rng.chance(1, 2) { s.ip.clone() } else { pick_bind_ip(rng, &hosts, host, &unknown) };
                        let port = match &s.port {
                            PortRef::Fixed(p) => *p,
                            PortRef::Of(_) => *rng.pick(&FIXED_PORTS),
                        };
                        (ip, port)
                    } else {
                        let port = if rng.chance(1, 4) { 0 } else { *rng.pick(&FIXED_PORTS) };
                        (pick_bind_ip(rng, &hosts, host, &unknown), port)
                    };
                    let id = next_id;
                    next_id += 1;
                    let pr = if port == 0 { PortRef::Of(id) } else { PortRef::Fixed(port) };
                    shadow.push(Shadow { id, host, proto, ip: ip.clone(), port: pr, conn: false });
                    steps.push(Step::Bind { id, host, proto, ip, port });
                }
                1 => {
                    let udp: Vec<&Shadow> = shadow.iter().filter(|s| s.proto == Proto::Udp).collect();
                    if udp.is_empty() {
                        continue;
                    }
                    let s = *rng.pick(&udp);
                    let (ip, port) = if rng.chance(3, 4) {
                        let t = *rng.pick(&udp);
                        (reach_ip(rng, &hosts, t.host, &t.ip, s.host), t.port.clone())
                    } else {
                        let o = rng.below(nh as u64) as usize;
                        (rng.pick(&hosts[o]).clone(), PortRef::Fixed(*rng.pick(&FIXED_PORTS)))
                    };
                    steps.push(Step::UdpConnect { sock: s.id, ip, port });
                }
                2 => {
                    let host = rng.below(nh as u64) as usize;
                    let ls: Vec<&Shadow> = shadow.iter().filter(|s| s.proto == Proto::Tcp && !s.conn).collect();
                    let (ip, port) = if !ls.is_empty() && rng.chance(4, 5) {
                        let t = *rng.pick(&ls);
                        (reach_ip(rng, &hosts, t.host, &t.ip, host), t.port.clone())
                    } else {
                        let o = rng.below(nh as u64) as usize;
                        (rng.pick(&hosts[o]).clone(), PortRef::Fixed(*rng.pick(&FIXED_PORTS)))
                    };
                    let id = next_id;
                    next_id += 1;
                    // a held SYN-ACK makes both ends retransmit; the kernel carries the handshake's
                    // retransmit count into the established phase (C06's subject), so holds are only
                    // generated with a retransmit budget that leaves room afterwards
                    let synack_hold = if cfg.retx_max >= 3 && rng.chance(1, 2) { rng.range(1, cfg.retx_threshold as u64 + 1) as u8 } else { 0 };
                    shadow.push(Shadow { id, host, proto: Proto::Tcp, ip: ip.clone(), port: PortRef::Of(id), conn: true });
                    steps.push(Step::TcpConnect { id, host, ip, port, synack_hold });
                }
                3 => {
                    if shadow.is_empty() {
                        continue;
                    }
                    let i = rng.below(shadow.len() as u64) as usize;
                    let s = shadow.remove(i);
                    steps.push(Step::Close { sock: s.id });
                }
                5 => {
                    // close a listener while a handshake to it is in flight (SYN-ACK kept on the
                    // wire), preferably a wildcard-bound one, then bind its address again
                    let ls: Vec<usize> = (0..shadow.len()).filter(|&i| shadow[i].proto == Proto::Tcp && !shadow[i].conn && nh > 1).collect();
                    if ls.is_empty() {
                        continue;
                    }
                    let wild: Vec<usize> = ls.iter().copied().filter(|&i| shadow[i].ip == "0.0.0.0" || shadow[i].ip == "::").collect();
                    let li = if !wild.is_empty() && rng.chance(2, 3) { *rng.pick(&wild) } else { *rng.pick(&ls) };
                    // another listener of the same host on the same fixed port under another specific address?
                    let sib: Vec<usize> = (0..shadow.len())
                        .filter(|&i| i != li && shadow[i].proto == Proto::Tcp && !shadow[i].conn && shadow[i].host == shadow[li].host && shadow[i].port == shadow[li].port && matches!(shadow[i].port, PortRef::Fixed(_)) && shadow[i].ip != shadow[li].ip && shadow[i].ip != "0.0.0.0" && shadow[i].ip != "::" && shadow[li].ip != "0.0.0.0" && shadow[li].ip != "::" && shadow[i].ip.contains(':') == shadow[li].ip.contains(':'))
                        .collect();
                    if !sib.is_empty() && rng.chance(2, 3) {
                        // the handshake goes to `li`, the sibling is closed in the middle of it
                        let target = shadow[li].clone();
                        let si = *rng.pick(&sib);
                        let closed = shadow.remove(si);
                        let others: Vec<usize> = (0..nh).filter(|h| *h != target.host).collect();
                        let host = *rng.pick(&others);
                        steps.push(Step::CloseDuringHandshake { host, ip: target.ip.clone(), port: target.port.clone(), listener: closed.id });
                        continue;
                    }
                    let t = shadow.remove(li);
                    let others: Vec<usize> = (0..nh).filter(|h| *h != t.host).collect();
                    let host = *rng.pick(&others);
                    let ip = reach_ip(rng, &hosts, t.host, &t.ip, host);
                    steps.push(Step::CloseDuringHandshake { host, ip, port: t.port.clone(), listener: t.id });
                    if let PortRef::Fixed(p) = t.port {
                        if rng.chance(4, 5) {
                            let id = next_id;
                            next_id += 1;
                            let proto = if rng.chance(5, 6) { Proto::Tcp } else { Proto::Udp };
                            let ip = if rng.chance(3, 4) { t.ip.clone() } else { pick_bind_ip(rng, &hosts, t.host, &unknown) };
                            shadow.push(Shadow { id, host: t.host, proto, ip: ip.clone(), port: PortRef::Fixed(p), conn: false });
                            steps.push(Step::Bind { id, host: t.host, proto, ip, port: p });
                        }
                    }
                }
                9 => {
                    // two listeners on one port under two addresses of one host (same family); a handshake to the first
                    // is in flight when the second is closed
                    let cands: Vec<(usize, String, String)> = (0..nh)
                        .flat_map(|h| {
                            let a = &hosts[h];
                            let mut v = Vec::new();
                            for i in 0..a.len() {
                                for j in 0..a.len() {
                                    if i != j && a[i].contains(':') == a[j].contains(':') {
                                        v.push((h, a[i].clone(), a[j].clone()));
                                    }
                                }
                            }
                            v
                        })
                        .collect();
                    if cands.is_empty() || nh < 2 {
                        continue;
                    }
                    let (th, ip1, ip2) = rng.pick(&cands).clone();
                    let port = *rng.pick(&FIXED_PORTS);
                    if shadow.iter().any(|s| s.host == th && s.proto == Proto::Tcp && s.port == PortRef::Fixed(port)) {
                        continue;
                    }
                    let (id1, id2) = (next_id, next_id + 1);
                    next_id += 2;
                    steps.push(Step::Bind { id: id1, host: th, proto: Proto::Tcp, ip: ip1.clone(), port });
                    steps.push(Step::Bind { id: id2, host: th, proto: Proto::Tcp, ip: ip2, port });
                    shadow.push(Shadow { id: id1, host: th, proto: Proto::Tcp, ip: ip1.clone(), port: PortRef::Fixed(port), conn: false });
                    let others: Vec<usize> = (0..nh).filter(|h| *h != th).collect();
                    let host = *rng.pick(&others);
                    steps.push(Step::CloseDuringHandshake { host, ip: ip1, port: PortRef::Fixed(port), listener: id2 });
                }
                8 => {
                    // connect, drop the connecting end without letting the wire run, rotate the allocator once
                    // round the range and ask for port 0: the lingering connection still holds its port
                    let ls: Vec<usize> = (0..shadow.len()).filter(|&i| shadow[i].proto == Proto::Tcp && !shadow[i].conn).collect();
                    if ls.is_empty() || nh < 2 {
                        continue;
                    }
                    let t = shadow[*rng.pick(&ls)].clone();
                    let others: Vec<usize> = (0..nh).filter(|h| *h != t.host).collect();
                    let host = *rng.pick(&others);
                    let ip = reach_ip(rng, &hosts, t.host, &t.ip, host);
                    let id = next_id;
                    next_id += 1;
                    steps.push(Step::TcpConnect { id, host, ip: ip.clone(), port: t.port.clone(), synack_hold: 0 });
                    steps.push(Step::CloseNoSettle { sock: id });
                    steps.push(Step::Spin { host, n: EPH_SIZE as u32 - rng.range(1, 3) as u32 });
                    for _ in 0..3 {
                        let bid = next_id;
                        next_id += 1;
                        let bip = if ip.contains(':') { "::".to_string() } else { "0.0.0.0".to_string() };
                        steps.push(Step::Bind { id: bid, host, proto: Proto::Tcp, ip: bip.clone(), port: 0 });
                        shadow.push(Shadow { id: bid, host, proto: Proto::Tcp, ip: bip, port: PortRef::Of(bid), conn: false });
                    }
                    // the accepted end is still open
                    shadow.push(Shadow { id: id + SRV, host: t.host, proto: Proto::Tcp, ip: t.ip.clone(), port: t.port.clone(), conn: true });
                }
                7 => {
                    // connect to a listener on a fixed port, close the connection (one end after the other, the
                    // second one being the passive closer on a host that then falls silent), close the
                    // listener and bind its address again
                    let ls: Vec<usize> = (0..shadow.len()).filter(|&i| shadow[i].proto == Proto::Tcp && !shadow[i].conn && matches!(shadow[i].port, PortRef::Fixed(_))).collect();
                    if ls.is_empty() || nh < 2 {
                        continue;
                    }
                    let li = *rng.pick(&ls);
                    let t = shadow[li].clone();
                    let others: Vec<usize> = (0..nh).filter(|h| *h != t.host).collect();
                    let host = *rng.pick(&others);
                    let ip = reach_ip(rng, &hosts, t.host, &t.ip, host);
                    let id = next_id;
                    next_id += 1;
                    if rng.chance(1, 3) {
                        steps.push(Step::HalfOpenTimeout { host, ip, port: t.port.clone(), listener: t.id });
                    } else {
                        steps.push(Step::TcpConnect { id, host, ip, port: t.port.clone(), synack_hold: 0 });
                        steps.push(Step::Close { sock: id });
                    }
                    shadow.remove(li);
                    steps.push(Step::Close { sock: t.id });
                    if let PortRef::Fixed(p) = t.port {
                        let nid = next_id;
                        next_id += 1;
                        shadow.push(Shadow { id: nid, host: t.host, proto: Proto::Tcp, ip: t.ip.clone(), port: PortRef::Fixed(p), conn: false });
                        steps.push(Step::Bind { id: nid, host: t.host, proto: Proto::Tcp, ip: t.ip.clone(), port: p });
                    }
                }
                _ => {
                    let host = rng.below(nh as u64) as usize;
                    let n = match rng.below(4) {
                        0 => rng.range(16_370, 16_400) as u32,
                        _ => rng.range(1, 6) as u32,
                    };
                    steps.push(Step::Spin { host, n });
                }
            }
        }
        // a quarter of the scenarios probe only at the end: between the steps the hosts say nothing of their own accord
        let mut sweep_every = !rng.chance(1, 4);
        if exhaustion {
            // fill the ephemeral range of one (protocol, family) on host 0 except for a few ports,
            // then bind :0 until the model says the range is full and once more
            let host = 0;
            let proto = if rng.bool() { Proto::Udp } else { Proto::Tcp };
            let own: Vec<&String> = hosts[0].iter().collect();
            let ip = if rng.bool() { (*rng.pick(&own)).clone() } else if own[0].contains(':') { "::".to_string() } else { "0.0.0.0".to_string() };
            let skip_lo = rng.range(0, 3) as u16;
            let skip_hi = rng.range(0, 3) as u32;
            steps.push(Step::Fill { host, proto, ip: ip.clone(), first: EPH_LO + skip_lo, count: EPH_SIZE as u32 - skip_lo as u32 - skip_hi });
            let zip = if rng.bool() { ip.clone() } else if ip.contains(':') { "::1".to_string() } else { "127.0.0.1".to_string() };
            steps.push(Step::ZeroMany { host, proto, ip: zip.clone(), max: 8 });
            // one hole at a time, at seeded positions relative to the allocator's cursor: the most
            // recently allocated port (just behind the cursor), its neighbours, anywhere
            let mut backs: Vec<u32> = vec![0, rng.range(1, EPH_SIZE as u64 - 1) as u32];
            if tier == Tier::Thorough {
                backs.push(*rng.pick(&[1u32, 2, EPH_SIZE as u32 - 1, EPH_SIZE as u32 - 2]));
                backs.push(0);
            }
            rng.shuffle(&mut backs);
            for back in backs {
                steps.push(Step::Reopen { host, proto, ip: zip.clone(), back });
            }
            steps.push(Step::Bind { id: next_id, host, proto, ip: ip.clone(), port: *rng.pick(&FIXED_PORTS) });
            sweep_every = false;
        }
        Scenario { hosts, cfg, unknown, extra_port: 5999, steps, sweep_every, sweep_tcp: rng.chance(4, 5) }
    }

    fn run(sc: &Scenario, keep: bool) -> Report {
        let addrs: Vec<Vec<IpAddr>> = sc.hosts.iter().map(|h| h.iter().map(|a| parse_ip(a)).collect()).collect();
        let d = Driver::new(&addrs, &sc.cfg, |_| {});
        let mut cx = Ctx {
            sc,
            d,
            m: Model::new(&addrs),
            real: BTreeMap::new(),
            bulk_real: Vec::new(),
            log: Log::new(keep),
            rep: Report::default(),
            v: None,
            herr: None,
            tag: 0,
            sweep_no: 0,
            nontrivial: false,
            last_zero_port: vec![None; addrs.len()],
            accept_flag: WakeFlag::new(),
            buf: Vec::new(),
            lingering: Vec::new(),
        };
        let r = core::catch(|| execute(&mut cx));
        let Ctx { d, real, bulk_real, log, mut rep, mut v, herr, nontrivial, .. } = cx;
        match r {
            Ok(()) => {
                // sockets go before the guard: their Drop calls into the kernel
                for (_, (h, s)) in real {
                    d.on(h, || drop(s));
                }
                for (h, _, _, s) in bulk_real {
                    d.on(h, || drop(s));
                }
            }
            Err(msg) => {
                // the kernel may be inconsistent after a panic: never run socket destructors
                std::mem::forget(real);
                std::mem::forget(bulk_real);
                if v.is_none() {
                    v = Some(Violation::new("Panic", format!("turmoil-net panicked: {msg}")));
                }
            }
        }
        drop(d);
        rep.abstract_digest = log.abs_digest();
        rep.full_digest = log.full_digest();
        rep.log = log.lines;
        rep.violation = v;
        rep.harness_error = herr;
        rep.nontrivial = nontrivial;
        rep.sim_ms = rep.steps;
        rep
    }

    fn shrink(sc: &Scenario) -> Vec<Scenario> {
        let mut out = Vec::new();
        // drop a suffix, then single steps
        for cut in [sc.steps.len() / 2, sc.steps.len().saturating_sub(1)] {
            if cut > 0 && cut < sc.steps.len() {
                let mut c = sc.clone();
                c.steps.truncate(cut);
                out.push(c);
            }
        }
        for i in 0..sc.steps.len() {
            let mut c = sc.clone();
            c.steps.remove(i);
            out.push(c);
        }
        if sc.sweep_tcp {
            let mut c = sc.clone();
            c.sweep_tcp = false;
            out.push(c);
        }
        if sc.sweep_every {
            let mut c = sc.clone();
            c.sweep_every = false;
            out.push(c);
        }
        for (i, st) in sc.steps.iter().enumerate() {
            match st {
                Step::TcpConnect { synack_hold, .. } if *synack_hold > 0 => {
                    let mut c = sc.clone();
                    if let Step::TcpConnect { synack_hold, .. } = &mut c.steps[i] {
                        *synack_hold = 0;
                    }
                    out.push(c);
                }
                Step::Spin { n, .. } if *n > 1 => {
                    for m in [1, *n / 2, *n - 1] {
                        if m < *n && m > 0 {
                            let mut c = sc.clone();
                            if let Step::Spin { n, .. } = &mut c.steps[i] {
                                *n = m;
                            }
                            out.push(c);
                        }
                    }
                }
                Step::Fill { count, .. } if *count > 1 => {
                    let mut c = sc.clone();
                    if let Step::Fill { count, .. } = &mut c.steps[i] {
                        *count /= 2;
                    }
                    out.push(c);
                }
                _ => {}
            }
        }
        // drop the last host when no step refers to it
        if sc.hosts.len() > 1 {
            let last = sc.hosts.len() - 1;
            let uses = sc.steps.iter().any(|s| match s {
                Step::Bind { host, .. } | Step::TcpConnect { host, .. } | Step::Spin { host, .. } | Step::Fill { host, .. } | Step::ZeroMany { host, .. } | Step::Reopen { host, .. } | Step::CloseDuringHandshake { host, .. } => *host == last,
                _ => false,
            });
            let addr_used = sc.steps.iter().any(|s| match s {
                Step::Bind { ip, .. } | Step::UdpConnect { ip, .. } | Step::TcpConnect { ip, .. } | Step::CloseDuringHandshake { ip, .. } => sc.hosts[last].contains(ip),
                _ => false,
            });
            if !uses && !addr_used {
                let mut c = sc.clone();
                c.hosts.pop();
                out.push(c);
            }
        }
        // drop an address of a host when unused
        for h in 0..sc.hosts.len() {
            if sc.hosts[h].len() > 1 {
                for a in 0..sc.hosts[h].len() {
                    let addr = &sc.hosts[h][a];
                    let used = sc.steps.iter().any(|s| match s {
                        Step::Bind { ip, .. } | Step::UdpConnect { ip, .. } | Step::TcpConnect { ip, .. } | Step::Fill { ip, .. } | Step::ZeroMany { ip, .. } | Step::Reopen { ip, .. } | Step::CloseDuringHandshake { ip, .. } => ip == addr,
                        _ => false,
                    });
                    if !used {
                        let mut c = sc.clone();
                        c.hosts[h].remove(a);
                        out.push(c);
                    }
                }
            }
        }
        out
    }

    fn signature(sc: &Scenario) -> String {
        format!("h{} {}", sc.hosts.len(), sc.steps.iter().map(|s| s.kind()).collect::<Vec<_>>().join(","))
    }
}
