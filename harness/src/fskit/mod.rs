//! fskit: operation DSL over turmoil-fs, executed against the real crate (direct driver: an
//! `Fs` in an `Arc<Mutex<_>>`, `turmoil_fs::enter` with an explicit, advancing `now`) and against the
//! reference model of `model.rs`.

pub mod model;

use model::{Model, Obs, OpenFlags, EK};
use serde::{Deserialize, Serialize};
use std::collections::{BTreeMap, BTreeSet};
use std::future::Future;
use std::io::{ErrorKind, Read, Seek, SeekFrom, Write};
use std::os::unix::fs::FileExt;
use std::pin::Pin;
use std::sync::{Arc, Mutex};
use std::task::{Context, Poll, RawWaker, RawWakerVTable, Waker};
use std::time::Duration;
use turmoil_fs::shim::std::fs as sfs;
use turmoil_fs::shim::tokio::fs as tfs;
use turmoil_fs::{EnterCtx, Fs, FsConfig};

/// The path universe: every name may become a file or a directory.
pub const PATHS: &[&str] = &["/a", "/b", "/d1", "/d2", "/d1/a", "/d1/b", "/d2/a", "/d1/s", "/d1/s/a", "/d2/s"];
pub const DIRS_FOR_SYNC: &[&str] = &["/", "/d1", "/d2", "/d1/s", "/d2/s"];

#[derive(Clone, Copy, Debug, PartialEq, Eq, Serialize, Deserialize)]
pub enum Front {
    Std,
    Tokio,
}

#[derive(Clone, Debug, PartialEq, Eq, Serialize, Deserialize)]
pub enum FsOp {
    Open { h: u8, path: String, read: bool, write: bool, append: bool, truncate: bool, create: bool, create_new: bool, front: Front },
    Close { h: u8 },
    /// File::try_clone of the handle in slot `h` into slot `new` (generated for write-only append handles, where
    /// it makes no difference whether the two descriptors share one cursor)
    TryClone { h: u8, new: u8 },
    WriteAt { h: u8, off: u64, len: u32, tag: u32 },
    ReadAt { h: u8, off: u64, len: u32 },
    Write { h: u8, len: u32, tag: u32 },
    Read { h: u8, len: u32 },
    Seek { h: u8, whence: u8, off: i64 },
    SetLen { h: u8, len: u64 },
    SyncAll { h: u8 },
    SyncData { h: u8 },
    HandleLen { h: u8 },
    SyncDir { path: String, front: Front },
    Rename { from: String, to: String, front: Front },
    RemoveFile { path: String, front: Front },
    CreateDir { path: String, front: Front },
    CreateDirAll { path: String, front: Front },
    RemoveDir { path: String, front: Front },
    RemoveDirAll { path: String, front: Front },
    ReadDir { path: String, front: Front },
    Metadata { path: String, front: Front },
    Exists { path: String },
    ReadWhole { path: String, front: Front },
    WriteWhole { path: String, len: u32, tag: u32, front: Front },
    /// io_uring front-end on the same tree: one SQE pushed, submitted and reaped at once
    RingWrite { h: u8, off: u64, len: u32, tag: u32 },
    RingRead { h: u8, off: u64, len: u32 },
    RingFsync { h: u8 },
    /// let virtual time pass (re-enter with a larger `now`)
    Advance { ms: u32 },
    /// fault: crash (only durable state survives); used by C07
    Crash,
}

impl FsOp {
    pub fn kind(&self) -> &'static str {
        match self {
            FsOp::Open { .. } => "open",
            FsOp::Close { .. } => "close",
            FsOp::TryClone { .. } => "try_clone",
            FsOp::WriteAt { .. } => "write_at",
            FsOp::ReadAt { .. } => "read_at",
            FsOp::Write { .. } => "write",
            FsOp::Read { .. } => "read",
            FsOp::Seek { .. } => "seek",
            FsOp::SetLen { .. } => "set_len",
            FsOp::SyncAll { .. } => "sync_all",
            FsOp::SyncData { .. } => "sync_data",
            FsOp::HandleLen { .. } => "handle_len",
            FsOp::SyncDir { .. } => "sync_dir",
            FsOp::Rename { .. } => "rename",
            FsOp::RemoveFile { .. } => "remove_file",
            FsOp::CreateDir { .. } => "create_dir",
            FsOp::CreateDirAll { .. } => "create_dir_all",
            FsOp::RemoveDir { .. } => "remove_dir",
            FsOp::RemoveDirAll { .. } => "remove_dir_all",
            FsOp::ReadDir { .. } => "read_dir",
            FsOp::Metadata { .. } => "metadata",
            FsOp::Exists { .. } => "exists",
            FsOp::ReadWhole { .. } => "read_whole",
            FsOp::WriteWhole { .. } => "write_whole",
            FsOp::RingWrite { .. } => "ring_write",
            FsOp::RingRead { .. } => "ring_read",
            FsOp::RingFsync { .. } => "ring_fsync",
            FsOp::Advance { .. } => "advance",
            FsOp::Crash => "crash",
        }
    }
    pub fn is_sync(&self) -> bool {
        matches!(self, FsOp::SyncAll { .. } | FsOp::SyncData { .. } | FsOp::SyncDir { .. } | FsOp::RingFsync { .. })
    }
}

/// Payload bytes are a function of (tag, index): never zero, so holes are distinguishable.
pub fn pattern(tag: u32, len: u32) -> Vec<u8> {
    (0..len).map(|i| 1 + ((tag.wrapping_mul(37).wrapping_add(i.wrapping_mul(11))) % 250) as u8).collect()
}

pub fn ek_of(e: &std::io::Error) -> EK {
    match e.kind() {
        ErrorKind::NotFound => EK::NotFound,
        ErrorKind::AlreadyExists => EK::AlreadyExists,
        ErrorKind::IsADirectory => EK::IsADirectory,
        ErrorKind::NotADirectory => EK::NotADirectory,
        ErrorKind::DirectoryNotEmpty => EK::DirectoryNotEmpty,
        ErrorKind::PermissionDenied => EK::PermissionDenied,
        ErrorKind::InvalidInput => EK::InvalidInput,
        _ => EK::Other,
    }
}

fn noop_waker() -> Waker {
    fn clone(_: *const ()) -> RawWaker {
        RawWaker::new(std::ptr::null(), &VT)
    }
    fn noop(_: *const ()) {}
    static VT: RawWakerVTable = RawWakerVTable::new(clone, noop, noop, noop);
    unsafe { Waker::from_raw(RawWaker::new(std::ptr::null(), &VT)) }
}

/// Poll a future once; the tokio fs shim completes immediately when no io latency is configured.
pub fn now_or_never<F: Future>(f: F) -> Option<F::Output> {
    let w = noop_waker();
    let mut cx = Context::from_waker(&w);
    let mut f = std::pin::pin!(f);
    match Pin::as_mut(&mut f).poll(&mut cx) {
        Poll::Ready(v) => Some(v),
        Poll::Pending => None,
    }
}

pub enum RealHandle {
    Std(sfs::File),
    Tokio(tfs::File),
}

#[derive(Clone, Debug, Default, Serialize, Deserialize, PartialEq)]
pub struct FsKnobs {
    /// sync_probability in percent (0 = off)
    pub sync_pct: u32,
    /// torn-write block size (0 = None)
    pub block_size: u64,
    pub fs_seed: u64,
}

/// Open handles and the (lazily created) ring of one host. All methods must run while the host's
/// `Fs` and `IoUringHostState` are entered — by `RealFs::entered` in the direct driver, by turmoil's
/// `Sim::step` when used from inside a host program.
#[derive(Default)]
pub struct Ops {
    pub handles: BTreeMap<u8, RealHandle>,
    pub ring: Option<turmoil_io_uring::IoUring>,
}

pub struct RealFs {
    pub arc: Arc<Mutex<Fs>>,
    pub iou: Arc<Mutex<turmoil_io_uring::host::IoUringHostState>>,
    pub now: Duration,
    pub ops: Ops,
}


fn res_unit(r: std::io::Result<()>) -> Obs {
    match r {
        Ok(()) => Obs::Unit,
        Err(e) => Obs::Err(ek_of(&e)),
    }
}

impl Ops {
    fn ring_op(&mut self, h: u8, make: impl FnOnce(turmoil_io_uring::types::Fd) -> turmoil_io_uring::squeue::Entry) -> Result<Option<i32>, String> {
        use std::os::fd::AsRawFd;
        let fd = match self.handles.get(&h) {
            None => return Ok(None),
            Some(RealHandle::Std(f)) => f.as_raw_fd(),
            Some(RealHandle::Tokio(f)) => f.as_raw_fd(),
        };
        if self.ring.is_none() {
            self.ring = Some(turmoil_io_uring::IoUring::new(4).map_err(|e| format!("ring: {e}"))?);
        }
        let ring = self.ring.as_mut().unwrap();
        let e = make(turmoil_io_uring::types::Fd(fd)).user_data(7);
        unsafe { ring.submission().push(&e).map_err(|e| format!("push: {e}"))? };
        ring.submit().map_err(|e| format!("submit: {e}"))?;
        let mut cq = ring.completion();
        cq.sync();
        match cq.next() {
            Some(c) => Ok(Some(c.result())),
            None => Err("ring op did not complete at once although no io latency is configured".into()),
        }
    }

    /// Crash: the host's tasks (and with them every open `File`) are dropped, then only durable state survives.
    pub fn exec_entered(&mut self, op: &FsOp) -> Result<Obs, String> {
        macro_rules! aw {
            ($e:expr) => {
                match now_or_never($e) {
                    Some(v) => v,
                    None => return Err(format!("tokio shim future pending for {:?}", op)),
                }
            };
        }
        Ok(match op {
            FsOp::Open { h, path, read, write, append, truncate, create, create_new, front } => {
                // dropping a previous handle in the same slot closes it first
                self.handles.remove(h);
                match front {
                    Front::Std => {
                        let mut o = sfs::OpenOptions::new();
                        o.read(*read).write(*write).append(*append).truncate(*truncate).create(*create).create_new(*create_new);
                        match o.open(path) {
                            Ok(f) => {
                                self.handles.insert(*h, RealHandle::Std(f));
                                Obs::Unit
                            }
                            Err(e) => Obs::Err(ek_of(&e)),
                        }
                    }
                    Front::Tokio => {
                        let mut o = tfs::OpenOptions::new();
                        o.read(*read).write(*write).append(*append).truncate(*truncate).create(*create).create_new(*create_new);
                        match aw!(o.open(path)) {
                            Ok(f) => {
                                self.handles.insert(*h, RealHandle::Tokio(f));
                                Obs::Unit
                            }
                            Err(e) => Obs::Err(ek_of(&e)),
                        }
                    }
                }
            }
            FsOp::Close { h } => {
                self.handles.remove(h);
                Obs::Unit
            }
            FsOp::TryClone { h, new } => {
                if h == new {
                    return Ok(Obs::Unjudged);
                }
                self.handles.remove(new);
                let r = match self.handles.get(h) {
                    None => return Ok(Obs::Unjudged),
                    Some(RealHandle::Std(f)) => f.try_clone().map(RealHandle::Std),
                    Some(RealHandle::Tokio(f)) => aw!(f.try_clone()).map(RealHandle::Tokio),
                };
                match r {
                    Ok(f) => {
                        self.handles.insert(*new, f);
                        Obs::Unit
                    }
                    Err(e) => Obs::Err(ek_of(&e)),
                }
            }
            FsOp::WriteAt { h, off, len, tag } => {
                let data = pattern(*tag, *len);
                match self.handles.get(h) {
                    None => Obs::Unjudged,
                    Some(RealHandle::Std(f)) => match f.write_at(&data, *off) {
                        Ok(n) => Obs::N(n as u64),
                        Err(e) => Obs::Err(ek_of(&e)),
                    },
                    Some(RealHandle::Tokio(f)) => match aw!(f.write_at(&data, *off)) {
                        Ok(n) => Obs::N(n as u64),
                        Err(e) => Obs::Err(ek_of(&e)),
                    },
                }
            }
            FsOp::ReadAt { h, off, len } => {
                let mut buf = vec![0xEEu8; *len as usize];
                let r = match self.handles.get(h) {
                    None => return Ok(Obs::Unjudged),
                    Some(RealHandle::Std(f)) => f.read_at(&mut buf, *off),
                    Some(RealHandle::Tokio(f)) => aw!(f.read_at(&mut buf, *off)),
                };
                match r {
                    Ok(n) => {
                        buf.truncate(n);
                        Obs::Bytes(buf)
                    }
                    Err(e) => Obs::Err(ek_of(&e)),
                }
            }
            FsOp::Write { h, len, tag } => {
                let data = pattern(*tag, *len);
                match self.handles.get_mut(h) {
                    None => Obs::Unjudged,
                    Some(RealHandle::Std(f)) => match f.write(&data) {
                        Ok(n) => Obs::N(n as u64),
                        Err(e) => Obs::Err(ek_of(&e)),
                    },
                    Some(RealHandle::Tokio(f)) => {
                        use tokio::io::AsyncWriteExt;
                        match aw!(f.write(&data)) {
                            Ok(n) => Obs::N(n as u64),
                            Err(e) => Obs::Err(ek_of(&e)),
                        }
                    }
                }
            }
            FsOp::Read { h, len } => {
                let mut buf = vec![0xEEu8; *len as usize];
                let r = match self.handles.get_mut(h) {
                    None => return Ok(Obs::Unjudged),
                    Some(RealHandle::Std(f)) => f.read(&mut buf),
                    Some(RealHandle::Tokio(f)) => {
                        use tokio::io::AsyncReadExt;
                        aw!(f.read(&mut buf))
                    }
                };
                match r {
                    Ok(n) => {
                        buf.truncate(n);
                        Obs::Bytes(buf)
                    }
                    Err(e) => Obs::Err(ek_of(&e)),
                }
            }
            FsOp::Seek { h, whence, off } => {
                let pos = match whence {
                    0 => SeekFrom::Start((*off).max(0) as u64),
                    1 => SeekFrom::Current(*off),
                    _ => SeekFrom::End(*off),
                };
                let r = match self.handles.get_mut(h) {
                    None => return Ok(Obs::Unjudged),
                    Some(RealHandle::Std(f)) => f.seek(pos),
                    Some(RealHandle::Tokio(f)) => {
                        use tokio::io::AsyncSeekExt;
                        aw!(f.seek(pos))
                    }
                };
                match r {
                    Ok(n) => Obs::N(n),
                    Err(e) => Obs::Err(ek_of(&e)),
                }
            }
            FsOp::SetLen { h, len } => match self.handles.get(h) {
                None => Obs::Unjudged,
                Some(RealHandle::Std(f)) => res_unit(f.set_len(*len)),
                Some(RealHandle::Tokio(f)) => res_unit(aw!(f.set_len(*len))),
            },
            FsOp::SyncAll { h } => match self.handles.get(h) {
                None => Obs::Unjudged,
                Some(RealHandle::Std(f)) => res_unit(f.sync_all()),
                Some(RealHandle::Tokio(f)) => res_unit(aw!(f.sync_all())),
            },
            FsOp::SyncData { h } => match self.handles.get(h) {
                None => Obs::Unjudged,
                Some(RealHandle::Std(f)) => res_unit(f.sync_data()),
                Some(RealHandle::Tokio(f)) => res_unit(aw!(f.sync_data())),
            },
            FsOp::HandleLen { h } => {
                let r = match self.handles.get(h) {
                    None => return Ok(Obs::Unjudged),
                    Some(RealHandle::Std(f)) => f.metadata(),
                    Some(RealHandle::Tokio(f)) => aw!(f.metadata()),
                };
                match r {
                    Ok(m) => Obs::Meta { is_dir: m.is_dir(), len: m.len() },
                    Err(e) => Obs::Err(ek_of(&e)),
                }
            }
            FsOp::SyncDir { path, front } => match front {
                Front::Std => res_unit(sfs::sync_dir(path)),
                Front::Tokio => res_unit(aw!(tfs::sync_dir(path))),
            },
            FsOp::Rename { from, to, front } => match front {
                Front::Std => res_unit(sfs::rename(from, to)),
                Front::Tokio => res_unit(aw!(tfs::rename(from, to))),
            },
            FsOp::RemoveFile { path, front } => match front {
                Front::Std => res_unit(sfs::remove_file(path)),
                Front::Tokio => res_unit(aw!(tfs::remove_file(path))),
            },
            FsOp::CreateDir { path, front } => match front {
                Front::Std => res_unit(sfs::create_dir(path)),
                Front::Tokio => res_unit(aw!(tfs::create_dir(path))),
            },
            FsOp::CreateDirAll { path, front } => match front {
                Front::Std => res_unit(sfs::create_dir_all(path)),
                Front::Tokio => res_unit(aw!(tfs::create_dir_all(path))),
            },
            FsOp::RemoveDir { path, front } => match front {
                Front::Std => res_unit(sfs::remove_dir(path)),
                Front::Tokio => res_unit(aw!(tfs::remove_dir(path))),
            },
            FsOp::RemoveDirAll { path, front } => match front {
                Front::Std => res_unit(sfs::remove_dir_all(path)),
                Front::Tokio => res_unit(aw!(tfs::remove_dir_all(path))),
            },
            FsOp::ReadDir { path, front } => {
                let r = match front {
                    Front::Std => sfs::read_dir(path),
                    Front::Tokio => aw!(tfs::read_dir(path)),
                };
                match r {
                    Ok(rd) => {
                        let mut names = BTreeSet::new();
                        let mut count = 0usize;
                        for e in rd {
                            match e {
                                Ok(e) => {
                                    names.insert(e.file_name().to_string_lossy().to_string());
                                    count += 1;
                                }
                                Err(e) => return Ok(Obs::Err(ek_of(&e))),
                            }
                        }
                        if count != names.len() {
                            // an entry listed twice: report as a name that can never match
                            names.insert(format!("<duplicate entries: {count} listed>"));
                        }
                        Obs::Names(names)
                    }
                    Err(e) => Obs::Err(ek_of(&e)),
                }
            }
            FsOp::Metadata { path, front } => {
                let r = match front {
                    Front::Std => sfs::metadata(path),
                    Front::Tokio => aw!(tfs::metadata(path)),
                };
                match r {
                    Ok(m) => Obs::Meta { is_dir: m.is_dir(), len: if m.is_dir() { 0 } else { m.len() } },
                    Err(e) => Obs::Err(ek_of(&e)),
                }
            }
            FsOp::Exists { path } => Obs::Bool(sfs::exists(path)),
            FsOp::ReadWhole { path, front } => {
                let r = match front {
                    Front::Std => sfs::read(path),
                    Front::Tokio => aw!(tfs::read(path)),
                };
                match r {
                    Ok(b) => Obs::Bytes(b),
                    Err(e) => Obs::Err(ek_of(&e)),
                }
            }
            FsOp::WriteWhole { path, len, tag, front } => {
                let data = pattern(*tag, *len);
                match front {
                    Front::Std => res_unit(sfs::write(path, &data)),
                    Front::Tokio => res_unit(aw!(tfs::write(path, &data))),
                }
            }
            FsOp::RingWrite { h, off, len, tag } => {
                let data = pattern(*tag, *len);
                let (off, len) = (*off, *len);
                let ptr = data.as_ptr();
                match self.ring_op(*h, move |fd| turmoil_io_uring::opcode::Write::new(fd, ptr, len).offset(off).build())? {
                    None => Obs::Unjudged,
                    Some(r) if r >= 0 => Obs::N(r as u64),
                    Some(_) => Obs::Err(EK::Other),
                }
            }
            FsOp::RingRead { h, off, len } => {
                let mut buf = vec![0xEEu8; *len as usize];
                let (off, len) = (*off, *len);
                let ptr = buf.as_mut_ptr();
                match self.ring_op(*h, move |fd| turmoil_io_uring::opcode::Read::new(fd, ptr, len).offset(off).build())? {
                    None => Obs::Unjudged,
                    Some(r) if r >= 0 => {
                        buf.truncate(r as usize);
                        Obs::Bytes(buf)
                    }
                    Some(_) => Obs::Err(EK::Other),
                }
            }
            FsOp::RingFsync { h } => match self.ring_op(*h, |fd| turmoil_io_uring::opcode::Fsync::new(fd).build())? {
                None => Obs::Unjudged,
                Some(0) => Obs::Unit,
                Some(_) => Obs::Err(EK::Other),
            },
            FsOp::Advance { .. } | FsOp::Crash => unreachable!(),
        })
    }

    /// Full sweep of the observable tree through the std shim: path -> (is_dir, len, content | entry set).
    /// Full sweep of the observable tree through the std shim: path -> (is_dir, len, content | entry set).
    pub fn sweep_entered(&self) -> BTreeMap<String, SweepEntry> {
            let mut out = BTreeMap::new();
            for p in std::iter::once(&"/").chain(PATHS.iter()) {
                let e = match sfs::metadata(p) {
                    Err(_) => SweepEntry::Absent,
                    Ok(m) if m.is_dir() => {
                        let names: BTreeSet<String> = match sfs::read_dir(p) {
                            Ok(rd) => rd.filter_map(|e| e.ok()).map(|e| e.file_name().to_string_lossy().to_string()).collect(),
                            Err(_) => [String::from("<read_dir failed>")].into_iter().collect(),
                        };
                        SweepEntry::Dir(names)
                    }
                    Ok(m) => {
                        let content = sfs::read(p).unwrap_or_else(|_| b"<read failed>".to_vec());
                        SweepEntry::File { len: m.len(), content }
                    }
                };
                out.insert(p.to_string(), e);
            }
            out
        }
}

impl RealFs {
    pub fn new(k: &FsKnobs) -> Self {
        let mut cfg = FsConfig::default();
        if k.sync_pct > 0 {
            cfg.sync_probability(k.sync_pct as f64 / 100.0);
        }
        if k.block_size > 0 {
            cfg.block_size(k.block_size);
        }
        RealFs {
            arc: Arc::new(Mutex::new(Fs::new(cfg, k.fs_seed))),
            iou: Arc::new(Mutex::new(turmoil_io_uring::host::IoUringHostState::new())),
            now: Duration::from_secs(1_000_000),
            ops: Ops::default(),
        }
    }

    pub fn entered<R>(&mut self, f: impl FnOnce(&mut Self) -> R) -> R {
        let arc = self.arc.clone();
        let iou = self.iou.clone();
        let _g = turmoil_fs::enter(&arc, EnterCtx { now: self.now, on_corruption: None });
        let _g2 = turmoil_io_uring::host::enter(&iou, turmoil_io_uring::host::EnterCtx { now: self.now });
        f(self)
    }

    /// One io_uring operation on handle `h`, pushed, submitted and reaped at once (no io latency is
    /// configured in the fskit drivers, so the CQE is visible immediately). Returns the CQE result.
    /// Crash: the host's tasks (and with them every open `File` and ring) are dropped, then only durable state survives.
    pub fn crash(&mut self) {
        self.entered(|s| {
            s.ops.handles.clear();
            s.ops.ring = None;
        });
        self.iou.lock().unwrap().crash();
        self.arc.lock().unwrap().crash();
    }

    pub fn exec(&mut self, op: &FsOp) -> Result<Obs, String> {
        if let FsOp::Advance { ms } = op {
            self.now += Duration::from_millis(*ms as u64);
            return Ok(Obs::Unit);
        }
        if let FsOp::Crash = op {
            self.crash();
            return Ok(Obs::Unit);
        }
        self.entered(|s| s.ops.exec_entered(op))
    }

    pub fn sweep(&mut self) -> BTreeMap<String, SweepEntry> {
        self.entered(|s| s.ops.sweep_entered())
    }
}

impl Drop for RealFs {
    fn drop(&mut self) {
        // handles must be dropped while entered (File::drop uses the current Fs if set)
        let arc = self.arc.clone();
        let iou = self.iou.clone();
        let _g = turmoil_fs::enter(&arc, EnterCtx { now: self.now, on_corruption: None });
        let _g2 = turmoil_io_uring::host::enter(&iou, turmoil_io_uring::host::EnterCtx { now: self.now });
        self.ops.handles.clear();
        self.ops.ring = None;
    }
}

#[derive(Clone, Debug, PartialEq, Eq)]
pub enum SweepEntry {
    Absent,
    Dir(BTreeSet<String>),
    File { len: u64, content: Vec<u8> },
}

pub fn model_sweep(m: &Model) -> BTreeMap<String, SweepEntry> {
    let mut out = BTreeMap::new();
    for p in std::iter::once(&"/").chain(PATHS.iter()) {
        let e = match m.lookup(p) {
            Err(_) => SweepEntry::Absent,
            Ok(i) => match &m.inodes[i] {
                model::Inode::Dir { entries } => SweepEntry::Dir(entries.keys().cloned().collect()),
                model::Inode::File { data } => SweepEntry::File { len: data.len() as u64, content: data.clone() },
            },
        };
        out.insert(p.to_string(), e);
    }
    out
}

/// Apply one op to the model.
pub fn exec_model(m: &mut Model, op: &FsOp) -> Obs {
    match op {
        FsOp::Open { h, path, read, write, append, truncate, create, create_new, .. } => {
            m.close(*h);
            m.open(
                *h,
                path,
                &OpenFlags { read: *read, write: *write, append: *append, truncate: *truncate, create: *create, create_new: *create_new },
            )
        }
        FsOp::Close { h } => {
            m.close(*h);
            Obs::Unit
        }
        FsOp::TryClone { h, new } => m.try_clone(*h, *new),
        FsOp::WriteAt { h, off, len, tag } => m.write_at(*h, *off, &pattern(*tag, *len)),
        FsOp::ReadAt { h, off, len } => m.read_at(*h, *off, *len as usize),
        FsOp::Write { h, len, tag } => m.write(*h, &pattern(*tag, *len)),
        FsOp::Read { h, len } => m.read(*h, *len as usize),
        FsOp::Seek { h, whence, off } => m.seek(*h, *whence, *off),
        FsOp::SetLen { h, len } => m.set_len(*h, *len),
        FsOp::SyncAll { h } | FsOp::SyncData { h } => m.sync_file(*h),
        FsOp::HandleLen { h } => m.handle_len(*h),
        FsOp::SyncDir { path, .. } => m.sync_dir(path),
        FsOp::Rename { from, to, .. } => m.rename(from, to),
        FsOp::RemoveFile { path, .. } => m.remove_file(path),
        FsOp::CreateDir { path, .. } => m.create_dir(path),
        FsOp::CreateDirAll { path, .. } => m.create_dir_all(path),
        FsOp::RemoveDir { path, .. } => m.remove_dir(path),
        FsOp::RemoveDirAll { path, .. } => m.remove_dir_all(path),
        FsOp::ReadDir { path, .. } => m.read_dir(path),
        FsOp::Metadata { path, .. } => m.metadata(path),
        FsOp::Exists { path } => Obs::Bool(m.exists(path)),
        FsOp::ReadWhole { path, .. } => m.read_whole(path),
        FsOp::WriteWhole { path, len, tag, .. } => m.write_whole(path, &pattern(*tag, *len)),
        // the ring looks only at the fd: operations the handle's open mode would not allow through the
        // synchronous API (and positional writes on O_APPEND handles) are outside the comparison
        FsOp::RingWrite { h, off, len, tag } => match m.handles.get(h) {
            Some(hd) if hd.write && !hd.append => m.write_at(*h, *off, &pattern(*tag, *len)),
            _ => Obs::Unjudged,
        },
        FsOp::RingRead { h, off, len } => match m.handles.get(h) {
            Some(hd) if hd.read => m.read_at(*h, *off, *len as usize),
            _ => Obs::Unjudged,
        },
        FsOp::RingFsync { h } => m.sync_file(*h),
        FsOp::Advance { .. } => Obs::Unit,
        FsOp::Crash => {
            m.crash();
            Obs::Unit
        }
    }
}

pub fn obs_brief(o: &Obs) -> String {
    match o {
        Obs::Bytes(b) => format!("Bytes(len={}, {:?})", b.len(), &b[..b.len().min(24)]),
        other => format!("{:?}", other),
    }
}
