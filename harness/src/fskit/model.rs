//! Reference POSIX tree (inode based, deliberately trivial) plus the durable image used by C07.
//!
//! Written from the property texts (C07, C10), not from turmoil-fs: files are inodes, directory
//! entries point at inodes, open handles hold an inode (so they survive rename/unlink), and the
//! durable image tracks, per directory inode, the entry set as of its last `sync_dir`, and per file
//! inode the content as of its last data sync.

use std::collections::{BTreeMap, BTreeSet};

#[derive(Clone, Copy, Debug, PartialEq, Eq, PartialOrd, Ord, serde::Serialize, serde::Deserialize)]
pub enum EK {
    NotFound,
    AlreadyExists,
    IsADirectory,
    NotADirectory,
    DirectoryNotEmpty,
    PermissionDenied,
    InvalidInput,
    /// any other kind (not compared by name)
    Other,
}

#[derive(Clone, Debug, PartialEq, Eq)]
pub enum Obs {
    Unit,
    N(u64),
    Bytes(Vec<u8>),
    Names(BTreeSet<String>),
    Meta { is_dir: bool, len: u64 },
    Bool(bool),
    Err(EK),
    /// the model does not judge this operation's outcome (outside the property)
    Unjudged,
}

#[derive(Clone, Debug)]
pub enum Inode {
    File { data: Vec<u8> },
    Dir { entries: BTreeMap<String, usize> },
}

#[derive(Clone, Debug)]
pub struct DataOp {
    /// Some((offset, data)) for a write, None for set_len / truncating open
    pub write: Option<(u64, Vec<u8>)>,
    /// file content right after the op
    pub after: Vec<u8>,
}

#[derive(Clone, Debug)]
pub struct Handle {
    pub ino: usize,
    pub cursor: u64,
    pub read: bool,
    pub write: bool,
    pub append: bool,
    /// path the handle was opened with (for guard predicates only)
    pub path: String,
    /// one of a try_clone pair: whether the two descriptors share one cursor is not judged
    pub dup: bool,
}

#[derive(Clone, Debug, Default)]
pub struct OpenFlags {
    pub read: bool,
    pub write: bool,
    pub append: bool,
    pub truncate: bool,
    pub create: bool,
    pub create_new: bool,
}

#[derive(Clone, Debug)]
pub struct Model {
    pub inodes: Vec<Inode>,
    pub handles: BTreeMap<u8, Handle>,
    // ---- durable image ----
    /// per directory inode: entry map as of its last sync_dir (absent = never synced = empty)
    pub durable_entries: BTreeMap<usize, BTreeMap<String, usize>>,
    /// per file inode: content as of its last data sync (absent = empty)
    pub durable_content: BTreeMap<usize, Vec<u8>>,
    /// per file inode: the data ops since the last explicit sync, in order, each with the content
    /// right after it (a random background sync may have flushed any prefix of them; torn writes
    /// may apply block prefixes of the writes after that point)
    pub snapshots: BTreeMap<usize, Vec<DataOp>>,
    /// inode -> (parent inode, name) under which it was created by create/create_dir (not by rename),
    /// while that creation is not yet durable
    pub pending_creation: BTreeMap<usize, (usize, String)>,
    /// renames whose entry changes are not durable yet: (src parent, src name, dst parent, dst name, inode).
    /// A rename is one namespace operation: syncing either parent makes both of its entry changes durable.
    pub pending_renames: Vec<(usize, String, usize, String, usize)>,
    /// guard bookkeeping (not part of the POSIX semantics): paths whose file was removed while it had
    /// unsynced data. A path-keyed pending log keeps those data ops, so only a *truncating* re-creation
    /// of the path is safe from known finding "remove-with-unsynced-state".
    pub stale_paths: BTreeSet<String>,
    /// number of pending (not durable) namespace/data operations — for the non-triviality rule
    pub pending_ops: u64,
}

pub const ROOT: usize = 0;

pub fn split(path: &str) -> Vec<&str> {
    path.split('/').filter(|s| !s.is_empty()).collect()
}

impl Default for Model {
    fn default() -> Self {
        Self::new()
    }
}

impl Model {
    pub fn new() -> Self {
        Model {
            inodes: vec![Inode::Dir { entries: BTreeMap::new() }],
            handles: BTreeMap::new(),
            durable_entries: BTreeMap::new(),
            durable_content: BTreeMap::new(),
            snapshots: BTreeMap::new(),
            pending_creation: BTreeMap::new(),
            pending_renames: Vec::new(),
            stale_paths: BTreeSet::new(),
            pending_ops: 0,
        }
    }

    fn dir_entries(&self, ino: usize) -> Option<&BTreeMap<String, usize>> {
        match &self.inodes[ino] {
            Inode::Dir { entries } => Some(entries),
            _ => None,
        }
    }

    fn dir_entries_mut(&mut self, ino: usize) -> Option<&mut BTreeMap<String, usize>> {
        match &mut self.inodes[ino] {
            Inode::Dir { entries } => Some(entries),
            _ => None,
        }
    }

    /// Resolve a path to an inode. Err(NotFound) if a component is missing, Err(NotADirectory) if
    /// an intermediate component is a file.
    pub fn lookup(&self, path: &str) -> Result<usize, EK> {
        let mut cur = ROOT;
        for c in split(path) {
            match &self.inodes[cur] {
                Inode::Dir { entries } => match entries.get(c) {
                    Some(i) => cur = *i,
                    None => return Err(EK::NotFound),
                },
                Inode::File { .. } => return Err(EK::NotADirectory),
            }
        }
        Ok(cur)
    }

    /// (parent inode, final name). Errors as `lookup` for the parent.
    pub fn lookup_parent<'a>(&self, path: &'a str) -> Result<(usize, &'a str), EK> {
        let comps = split(path);
        if comps.is_empty() {
            return Err(EK::InvalidInput);
        }
        let mut cur = ROOT;
        for c in &comps[..comps.len() - 1] {
            match &self.inodes[cur] {
                Inode::Dir { entries } => match entries.get(*c) {
                    Some(i) => cur = *i,
                    None => return Err(EK::NotFound),
                },
                Inode::File { .. } => return Err(EK::NotADirectory),
            }
        }
        match &self.inodes[cur] {
            Inode::Dir { .. } => Ok((cur, comps[comps.len() - 1])),
            Inode::File { .. } => Err(EK::NotADirectory),
        }
    }

    pub fn is_dir(&self, path: &str) -> bool {
        matches!(self.lookup(path).map(|i| &self.inodes[i]), Ok(Inode::Dir { .. }))
    }
    pub fn is_file(&self, path: &str) -> bool {
        matches!(self.lookup(path).map(|i| &self.inodes[i]), Ok(Inode::File { .. }))
    }
    pub fn exists(&self, path: &str) -> bool {
        self.lookup(path).is_ok()
    }
    pub fn file_data(&self, ino: usize) -> &Vec<u8> {
        match &self.inodes[ino] {
            Inode::File { data } => data,
            _ => panic!("model: not a file"),
        }
    }
    fn file_data_mut(&mut self, ino: usize) -> &mut Vec<u8> {
        match &mut self.inodes[ino] {
            Inode::File { data } => data,
            _ => panic!("model: not a file"),
        }
    }

    fn note_data_op(&mut self, ino: usize) {
        self.note_data_op_w(ino, None)
    }

    fn note_data_op_w(&mut self, ino: usize, write: Option<(u64, Vec<u8>)>) {
        let d = self.file_data(ino).clone();
        self.snapshots.entry(ino).or_default().push(DataOp { write, after: d });
        self.pending_ops += 1;
    }

    /// Contents a crash may leave in file `ino` (call before `crash`): its durable content with
    /// all knobs off; with `random_sync`, additionally the content after any data op since the last
    /// explicit sync; with `block_size`, block-prefix overlays of the writes pending after that point.
    pub fn admissible_after_crash(&self, ino: usize, random_sync: bool, block_size: u64, observed: &[u8]) -> bool {
        let durable = self.durable_content.get(&ino).cloned().unwrap_or_default();
        let empty = Vec::new();
        let ops = self.snapshots.get(&ino).unwrap_or(&empty);
        let last_j = if random_sync { ops.len() } else { 0 };
        for j in 0..=last_j {
            let base: &Vec<u8> = if j == 0 { &durable } else { &ops[j - 1].after };
            if block_size == 0 {
                if base.as_slice() == observed {
                    return true;
                }
            } else {
                let writes: Vec<(u64, Vec<u8>)> = ops[j..].iter().filter_map(|o| o.write.clone()).collect();
                if torn_admissible(base, &writes, block_size, observed) {
                    return true;
                }
            }
        }
        false
    }

    // ---------------------------------------------------------------- namespace ops

    pub fn open(&mut self, h: u8, path: &str, f: &OpenFlags) -> Obs {
        let wants_write = f.write || f.append;
        let (parent, name) = match self.lookup_parent(path) {
            Ok(x) => x,
            Err(EK::InvalidInput) => return Obs::Unjudged,
            Err(e) => return Obs::Err(e),
        };
        let existing = self.dir_entries(parent).unwrap().get(name).copied();
        let ino = match existing {
            Some(i) => {
                if f.create_new {
                    return Obs::Err(EK::AlreadyExists);
                }
                if matches!(self.inodes[i], Inode::Dir { .. }) {
                    if wants_write || f.create || f.truncate {
                        return Obs::Err(EK::IsADirectory);
                    }
                    return Obs::Unjudged;
                }
                i
            }
            None => {
                if !(f.create || f.create_new) {
                    return Obs::Err(EK::NotFound);
                }
                let i = self.inodes.len();
                self.inodes.push(Inode::File { data: Vec::new() });
                self.dir_entries_mut(parent).unwrap().insert(name.to_string(), i);
                self.pending_creation.insert(i, (parent, name.to_string()));
                self.pending_ops += 1;
                i
            }
        };
        if f.truncate && f.write {
            self.stale_paths.remove(path);
            // (a truncating open counts as an unsynced data op even on a fresh file)
            self.file_data_mut(ino).clear();
            self.note_data_op(ino);
        }
        self.handles.insert(
            h,
            Handle { ino, cursor: 0, read: f.read, write: wants_write, append: f.append, path: path.to_string(), dup: false },
        );
        Obs::Unit
    }

    pub fn close(&mut self, h: u8) {
        self.handles.remove(&h);
    }

    pub fn try_clone(&mut self, h: u8, new: u8) -> Obs {
        if h == new {
            return Obs::Unjudged;
        }
        self.close(new);
        let Some(mut hd) = self.handles.get(&h).cloned() else { return Obs::Unjudged };
        hd.cursor = 0;
        hd.dup = true;
        self.handles.get_mut(&h).unwrap().dup = true;
        self.handles.insert(new, hd);
        Obs::Unit
    }

    pub fn create_dir(&mut self, path: &str) -> Obs {
        let (parent, name) = match self.lookup_parent(path) {
            Ok(x) => x,
            Err(EK::InvalidInput) => return Obs::Err(EK::AlreadyExists), // "/" exists
            Err(e) => return Obs::Err(e),
        };
        if self.dir_entries(parent).unwrap().contains_key(name) {
            return Obs::Err(EK::AlreadyExists);
        }
        let i = self.inodes.len();
        self.inodes.push(Inode::Dir { entries: BTreeMap::new() });
        self.dir_entries_mut(parent).unwrap().insert(name.to_string(), i);
        self.pending_creation.insert(i, (parent, name.to_string()));
        self.pending_ops += 1;
        Obs::Unit
    }

    pub fn create_dir_all(&mut self, path: &str) -> Obs {
        let comps = split(path);
        let mut cur = String::new();
        for c in comps {
            cur.push('/');
            cur.push_str(c);
            match self.lookup(&cur) {
                Ok(i) => {
                    if !matches!(self.inodes[i], Inode::Dir { .. }) {
                        // a file in the way: mkdir -p fails (EEXIST / ENOTDIR depending on position)
                        return Obs::Err(EK::Other);
                    }
                }
                Err(_) => {
                    if let Obs::Err(e) = self.create_dir(&cur) {
                        return Obs::Err(e);
                    }
                }
            }
        }
        Obs::Unit
    }

    pub fn remove_dir(&mut self, path: &str) -> Obs {
        let (parent, name) = match self.lookup_parent(path) {
            Ok(x) => x,
            Err(EK::InvalidInput) => return Obs::Unjudged,
            Err(e) => return Obs::Err(e),
        };
        let Some(i) = self.dir_entries(parent).unwrap().get(name).copied() else {
            return Obs::Err(EK::NotFound);
        };
        match &self.inodes[i] {
            Inode::File { .. } => Obs::Err(EK::NotADirectory),
            Inode::Dir { entries } => {
                if !entries.is_empty() {
                    return Obs::Err(EK::DirectoryNotEmpty);
                }
                self.dir_entries_mut(parent).unwrap().remove(name);
                self.pending_ops += 1;
                Obs::Unit
            }
        }
    }

    pub fn remove_dir_all(&mut self, path: &str) -> Obs {
        let (parent, name) = match self.lookup_parent(path) {
            Ok(x) => x,
            Err(EK::InvalidInput) => return Obs::Unjudged,
            Err(e) => return Obs::Err(e),
        };
        let Some(i) = self.dir_entries(parent).unwrap().get(name).copied() else {
            return Obs::Err(EK::NotFound);
        };
        match &self.inodes[i] {
            Inode::File { .. } => Obs::Err(EK::NotADirectory),
            Inode::Dir { .. } => {
                self.dir_entries_mut(parent).unwrap().remove(name);
                self.pending_ops += 1;
                Obs::Unit
            }
        }
    }

    pub fn remove_file(&mut self, path: &str) -> Obs {
        let (parent, name) = match self.lookup_parent(path) {
            Ok(x) => x,
            Err(EK::InvalidInput) => return Obs::Unjudged,
            Err(e) => return Obs::Err(e),
        };
        let Some(i) = self.dir_entries(parent).unwrap().get(name).copied() else {
            return Obs::Err(EK::NotFound);
        };
        match &self.inodes[i] {
            Inode::Dir { .. } => Obs::Err(EK::IsADirectory),
            Inode::File { .. } => {
                if self.snapshots.get(&i).map(|v| !v.is_empty()).unwrap_or(false) {
                    self.stale_paths.insert(path.to_string());
                }
                self.dir_entries_mut(parent).unwrap().remove(name);
                self.pending_ops += 1;
                Obs::Unit
            }
        }
    }

    fn is_ancestor_or_same(&self, anc: usize, mut path_inos: Vec<usize>) -> bool {
        path_inos.retain(|i| *i == anc);
        !path_inos.is_empty()
    }

    fn path_inodes(&self, path: &str) -> Vec<usize> {
        let mut v = vec![ROOT];
        let mut cur = ROOT;
        for c in split(path) {
            match self.dir_entries(cur).and_then(|e| e.get(c)) {
                Some(i) => {
                    cur = *i;
                    v.push(cur);
                }
                None => break,
            }
        }
        v
    }

    pub fn rename(&mut self, from: &str, to: &str) -> Obs {
        let (fp, fname) = match self.lookup_parent(from) {
            Ok(x) => x,
            Err(EK::InvalidInput) => return Obs::Unjudged,
            Err(e) => return Obs::Err(e),
        };
        let Some(src) = self.dir_entries(fp).unwrap().get(fname).copied() else {
            return Obs::Err(EK::NotFound);
        };
        let (tp, tname) = match self.lookup_parent(to) {
            Ok(x) => x,
            Err(EK::InvalidInput) => return Obs::Unjudged,
            Err(e) => return Obs::Err(e),
        };
        let src_is_dir = matches!(self.inodes[src], Inode::Dir { .. });
        // a directory cannot be moved into itself / its own subtree
        if src_is_dir {
            let mut inos = self.path_inodes(to);
            // destination parent chain
            let parent_chain_len = split(to).len();
            inos.truncate(parent_chain_len);
            if self.is_ancestor_or_same(src, inos) {
                return Obs::Err(EK::InvalidInput);
            }
        }
        let dst = self.dir_entries(tp).unwrap().get(tname).copied();
        if let Some(d) = dst {
            if d == src {
                return Obs::Unit; // same object: no-op
            }
            let dst_is_dir = matches!(self.inodes[d], Inode::Dir { .. });
            match (src_is_dir, dst_is_dir) {
                (false, true) => return Obs::Err(EK::IsADirectory),
                (true, false) => return Obs::Err(EK::NotADirectory),
                (true, true) => {
                    if !self.dir_entries(d).unwrap().is_empty() {
                        return Obs::Err(EK::DirectoryNotEmpty);
                    }
                }
                (false, false) => {}
            }
        }
        self.dir_entries_mut(fp).unwrap().remove(fname);
        self.dir_entries_mut(tp).unwrap().insert(tname.to_string(), src);
        // a renamed object is no longer "created at" its original place
        self.pending_creation.remove(&src);
        if fp != tp {
            self.pending_renames.push((fp, fname.to_string(), tp, tname.to_string(), src));
        }
        self.pending_ops += 1;
        Obs::Unit
    }

    pub fn read_dir(&self, path: &str) -> Obs {
        match self.lookup(path) {
            Err(e) => Obs::Err(e),
            Ok(i) => match &self.inodes[i] {
                Inode::File { .. } => Obs::Err(EK::NotADirectory),
                Inode::Dir { entries } => Obs::Names(entries.keys().cloned().collect()),
            },
        }
    }

    pub fn metadata(&self, path: &str) -> Obs {
        match self.lookup(path) {
            Err(e) => Obs::Err(e),
            Ok(i) => match &self.inodes[i] {
                Inode::File { data } => Obs::Meta { is_dir: false, len: data.len() as u64 },
                Inode::Dir { .. } => Obs::Meta { is_dir: true, len: 0 },
            },
        }
    }

    pub fn read_whole(&self, path: &str) -> Obs {
        match self.lookup(path) {
            Err(e) => Obs::Err(e),
            Ok(i) => match &self.inodes[i] {
                Inode::File { data } => Obs::Bytes(data.clone()),
                Inode::Dir { .. } => Obs::Unjudged,
            },
        }
    }

    /// `fs::write(path, data)`: create + truncate + write.
    pub fn write_whole(&mut self, path: &str, data: &[u8]) -> Obs {
        let f = OpenFlags { write: true, create: true, truncate: true, ..Default::default() };
        match self.open(250, path, &f) {
            Obs::Unit => {}
            o => return o,
        }
        let r = self.write_at(250, 0, data);
        self.close(250);
        match r {
            Obs::N(_) => Obs::Unit,
            o => o,
        }
    }

    // ---------------------------------------------------------------- handle ops

    pub fn write_at(&mut self, h: u8, off: u64, data: &[u8]) -> Obs {
        let Some(hd) = self.handles.get(&h).cloned() else { return Obs::Unjudged };
        if !hd.write {
            return Obs::Err(EK::PermissionDenied);
        }
        if data.is_empty() {
            return Obs::N(0);
        }
        let d = self.file_data_mut(hd.ino);
        let end = off as usize + data.len();
        if d.len() < end {
            d.resize(end, 0);
        }
        d[off as usize..end].copy_from_slice(data);
        self.note_data_op_w(hd.ino, Some((off, data.to_vec())));
        Obs::N(data.len() as u64)
    }

    pub fn read_at(&self, h: u8, off: u64, len: usize) -> Obs {
        let Some(hd) = self.handles.get(&h) else { return Obs::Unjudged };
        if !hd.read {
            return Obs::Err(EK::PermissionDenied);
        }
        let d = self.file_data(hd.ino);
        if off as usize >= d.len() {
            return Obs::Bytes(vec![]);
        }
        let end = (off as usize + len).min(d.len());
        Obs::Bytes(d[off as usize..end].to_vec())
    }

    pub fn write(&mut self, h: u8, data: &[u8]) -> Obs {
        let Some(hd) = self.handles.get(&h).cloned() else { return Obs::Unjudged };
        if !hd.write {
            return Obs::Err(EK::PermissionDenied);
        }
        let off = if hd.append { self.file_data(hd.ino).len() as u64 } else { hd.cursor };
        let r = self.write_at(h, off, data);
        if let Obs::N(n) = r {
            self.handles.get_mut(&h).unwrap().cursor = off + n;
        }
        r
    }

    pub fn read(&mut self, h: u8, len: usize) -> Obs {
        let Some(hd) = self.handles.get(&h).cloned() else { return Obs::Unjudged };
        let r = self.read_at(h, hd.cursor, len);
        if let Obs::Bytes(b) = &r {
            self.handles.get_mut(&h).unwrap().cursor += b.len() as u64;
        }
        r
    }

    /// whence: 0 = Start, 1 = Current, 2 = End
    pub fn seek(&mut self, h: u8, whence: u8, off: i64) -> Obs {
        let Some(hd) = self.handles.get(&h).cloned() else { return Obs::Unjudged };
        if hd.dup && whence == 1 {
            return Obs::Unjudged;
        }
        let base = match whence {
            0 => 0i64,
            1 => hd.cursor as i64,
            _ => self.file_data(hd.ino).len() as i64,
        };
        let np = base + off;
        if np < 0 {
            return Obs::Err(EK::InvalidInput);
        }
        self.handles.get_mut(&h).unwrap().cursor = np as u64;
        Obs::N(np as u64)
    }

    pub fn set_len(&mut self, h: u8, len: u64) -> Obs {
        let Some(hd) = self.handles.get(&h).cloned() else { return Obs::Unjudged };
        if !hd.write {
            return Obs::Err(EK::PermissionDenied);
        }
        self.file_data_mut(hd.ino).resize(len as usize, 0);
        self.note_data_op(hd.ino);
        Obs::Unit
    }

    pub fn handle_len(&self, h: u8) -> Obs {
        let Some(hd) = self.handles.get(&h) else { return Obs::Unjudged };
        Obs::Meta { is_dir: false, len: self.file_data(hd.ino).len() as u64 }
    }

    // ---------------------------------------------------------------- durability

    pub fn sync_file(&mut self, h: u8) -> Obs {
        let Some(hd) = self.handles.get(&h).cloned() else { return Obs::Unjudged };
        self.sync_inode(hd.ino);
        Obs::Unit
    }

    pub fn sync_inode(&mut self, ino: usize) {
        let d = self.file_data(ino).clone();
        self.durable_content.insert(ino, d);
        self.snapshots.remove(&ino);
    }

    pub fn sync_dir(&mut self, path: &str) -> Obs {
        match self.lookup(path) {
            Err(e) => Obs::Err(e),
            Ok(i) => match &self.inodes[i] {
                Inode::File { .. } => Obs::Err(EK::NotADirectory),
                Inode::Dir { entries } => {
                    let e = entries.clone();
                    // creations inside this directory are now durable
                    let children: Vec<usize> = e.values().copied().collect();
                    for c in children {
                        if let Some((p, _)) = self.pending_creation.get(&c) {
                            if *p == i {
                                self.pending_creation.remove(&c);
                            }
                        }
                    }
                    self.durable_entries.insert(i, e);
                    // renames touching this directory become durable as a whole
                    let (touch, keep): (Vec<_>, Vec<_>) = std::mem::take(&mut self.pending_renames).into_iter().partition(|r| r.0 == i || r.2 == i);
                    self.pending_renames = keep;
                    for (sp, sname, dp, dname, ino) in touch {
                        if sp != i {
                            // source side: the old entry is durably gone (unless the name was re-used since)
                            let live = self.dir_entries(sp).and_then(|m| m.get(&sname)).copied();
                            if let Some(de) = self.durable_entries.get_mut(&sp) {
                                if de.get(&sname) == Some(&ino) && live != Some(ino) {
                                    de.remove(&sname);
                                }
                            }
                        }
                        if dp != i {
                            // destination side: the new entry is durable if it is still there
                            if self.dir_entries(dp).and_then(|m| m.get(&dname)) == Some(&ino) {
                                self.durable_entries.entry(dp).or_default().insert(dname, ino);
                            }
                        }
                    }
                    // the directory's own creation (if still pending, and it is still where it was
                    // created) becomes durable independently of its parent — as the crate documents
                    if let Some((p, name)) = self.pending_creation.get(&i).cloned() {
                        if self.dir_entries(p).and_then(|m| m.get(&name)) == Some(&i) {
                            self.durable_entries.entry(p).or_default().insert(name, i);
                        }
                        self.pending_creation.remove(&i);
                    }
                    self.pending_ops = self.pending_ops.saturating_sub(1);
                    Obs::Unit
                }
            },
        }
    }

    /// Crash: open handles die; the live tree becomes the durable image reachable from `/`.
    /// Returns `true` if the durable image contains a dangling subtree (durable entries recorded for
    /// a directory that is itself not durably reachable) — the property leaves those unspecified, so
    /// the caller stops judging the run after this crash.
    pub fn crash(&mut self) -> bool {
        self.handles.clear();
        // rebuild inodes' live state from durable image
        let mut reachable: BTreeSet<usize> = BTreeSet::new();
        let mut stack = vec![ROOT];
        let mut new_entries: BTreeMap<usize, BTreeMap<String, usize>> = BTreeMap::new();
        while let Some(d) = stack.pop() {
            if !reachable.insert(d) {
                continue;
            }
            let ents = self.durable_entries.get(&d).cloned().unwrap_or_default();
            for (_, c) in &ents {
                if matches!(self.inodes[*c], Inode::Dir { .. }) {
                    stack.push(*c);
                } else {
                    reachable.insert(*c);
                }
            }
            new_entries.insert(d, ents);
        }
        let mut dangling = false;
        for (d, e) in &self.durable_entries {
            if !reachable.contains(d) && !e.is_empty() {
                dangling = true;
            }
        }
        for (c, _) in &self.durable_content {
            if !reachable.contains(c) {
                // orphaned inode content: harmless, never visible
            }
        }
        for i in 0..self.inodes.len() {
            match &mut self.inodes[i] {
                Inode::Dir { entries } => {
                    *entries = new_entries.get(&i).cloned().unwrap_or_default();
                }
                Inode::File { data } => {
                    *data = self.durable_content.get(&i).cloned().unwrap_or_default();
                }
            }
        }
        // unreachable directories lose their durable record too (they are gone)
        self.durable_entries.retain(|d, _| reachable.contains(d));
        self.durable_content.retain(|c, _| reachable.contains(c));
        self.snapshots.clear();
        self.pending_creation.clear();
        self.pending_renames.clear();
        self.stale_paths.clear();
        self.pending_ops = 0;
        dangling
    }

    /// Admissible post-crash contents of file `ino` *before* calling `crash`:
    /// `exact` — what it must be with all knobs off.
    pub fn durable_of(&self, ino: usize) -> Vec<u8> {
        self.durable_content.get(&ino).cloned().unwrap_or_default()
    }

    /// All regular files and directories of the live tree, as (path, is_dir, inode), depth first, sorted.
    pub fn walk(&self) -> Vec<(String, bool, usize)> {
        let mut out = Vec::new();
        fn rec(m: &Model, ino: usize, prefix: &str, out: &mut Vec<(String, bool, usize)>) {
            if let Inode::Dir { entries } = &m.inodes[ino] {
                for (n, c) in entries {
                    let p = format!("{}/{}", prefix, n);
                    let is_dir = matches!(m.inodes[*c], Inode::Dir { .. });
                    out.push((p.clone(), is_dir, *c));
                    if is_dir {
                        rec(m, *c, &p, out);
                    }
                }
            }
        }
        rec(self, ROOT, "", &mut out);
        out
    }
}

/// Is `observed` one of the contents that torn writes with block size `bs` may leave:
/// `base` overlaid, in order, with a prefix of `k_i * bs` bytes (capped at the write's length,
/// `0 <= k_i <= ceil(len_i / bs)`) of each pending write?
pub fn torn_admissible(base: &[u8], writes: &[(u64, Vec<u8>)], bs: u64, observed: &[u8]) -> bool {
    fn rec(cur: &Vec<u8>, writes: &[(u64, Vec<u8>)], bs: u64, observed: &[u8]) -> bool {
        if writes.is_empty() {
            return cur.as_slice() == observed;
        }
        let (off, data) = &writes[0];
        let blocks = (data.len() as u64).div_ceil(bs);
        for k in 0..=blocks {
            let n = ((k * bs) as usize).min(data.len());
            let mut next = cur.clone();
            if n > 0 {
                let end = *off as usize + n;
                if next.len() < end {
                    next.resize(end, 0);
                }
                next[*off as usize..end].copy_from_slice(&data[..n]);
            }
            // prune: bytes beyond the observed length can never disappear again
            if next.len() > observed.len() {
                continue;
            }
            if rec(&next, &writes[1..], bs, observed) {
                return true;
            }
        }
        false
    }
    rec(&base.to_vec(), writes, bs, observed)
}

#[cfg(test)]
mod tests {
    use super::*;

    #[test]
    fn model_basics() {
        let mut m = Model::new();
        assert_eq!(m.create_dir("/d"), Obs::Unit);
        assert_eq!(m.create_dir("/d"), Obs::Err(EK::AlreadyExists));
        let f = OpenFlags { write: true, create: true, read: true, ..Default::default() };
        assert_eq!(m.open(1, "/d/a", &f), Obs::Unit);
        assert_eq!(m.write_at(1, 2, b"xy"), Obs::N(2));
        assert_eq!(m.read_at(1, 0, 10), Obs::Bytes(vec![0, 0, b'x', b'y']));
        assert_eq!(m.rename("/d/a", "/b"), Obs::Unit);
        assert_eq!(m.read_at(1, 0, 10), Obs::Bytes(vec![0, 0, b'x', b'y']));
        assert_eq!(m.remove_dir("/d"), Obs::Unit);
        assert!(m.is_file("/b"));
        // nothing synced: crash loses everything
        m.crash();
        assert!(!m.exists("/b"));
    }

    #[test]
    fn durable_image() {
        let mut m = Model::new();
        let f = OpenFlags { write: true, create: true, read: true, ..Default::default() };
        m.open(1, "/a", &f);
        m.write_at(1, 0, b"hello");
        m.sync_file(1);
        m.write_at(1, 0, b"J");
        m.sync_dir("/");
        m.crash();
        assert_eq!(m.read_whole("/a"), Obs::Bytes(b"hello".to_vec()));
    }

    #[test]
    fn torn() {
        assert!(torn_admissible(b"", &[(0, b"abcdefgh".to_vec())], 4, b"abcd"));
        assert!(torn_admissible(b"", &[(0, b"abcdefgh".to_vec())], 4, b""));
        assert!(!torn_admissible(b"", &[(0, b"abcdefgh".to_vec())], 4, b"abc"));
    }
}
