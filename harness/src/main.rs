#![allow(dead_code)]
//! vcheck — deterministic-simulation checks for the turmoil properties C01..C20.
//!
//!   vcheck <ID> --tier quick|thorough [--count N] [--threads N]
//!   vcheck replay <file>
//!   vcheck selfcheck <ID> [N]
//!
//! VERIF_SEED (default 1) decides everything. Exit 0 = held, 1 = VIOLATION, 2 = harness error.

mod core;
#[cfg(feature = "kit-fs")]
mod fskit;
#[cfg(feature = "kit-sim")]
mod simkit;
#[cfg(feature = "kit-wire")]
mod wirekit;
#[cfg(feature = "kit-wire2")]
mod wirekit2;
mod props;

use core::{Options, Tier};
use props::{dispatch, Action};
use std::path::Path;

fn main() {
    core::install_panic_hook();
    let args: Vec<String> = std::env::args().skip(1).collect();
    if args.is_empty() {
        eprintln!("usage: vcheck <ID> --tier quick|thorough | replay <file> | selfcheck <ID> [N]");
        std::process::exit(2);
    }
    let seed: u64 = std::env::var("VERIF_SEED").ok().and_then(|s| s.trim().parse().ok()).unwrap_or(1);
    let code = match args[0].as_str() {
        "replay" if std::env::var_os("VCHECK_INNER").is_none() && replay_is_abort(Path::new(&args[1])) => supervise_replay(&args),
        "replay" => {
            let path = Path::new(&args[1]);
            let s = std::fs::read_to_string(path).unwrap_or_else(|e| {
                eprintln!("harness error: cannot read {}: {e}", path.display());
                std::process::exit(2)
            });
            let v: serde_json::Value = serde_json::from_str(&s).unwrap_or_else(|e| {
                eprintln!("harness error: cannot parse {}: {e}", path.display());
                std::process::exit(2)
            });
            let id = v["property"].as_str().unwrap_or("").to_string();
            dispatch(id.as_str(), &Action::Replay(path))
        }
        "probe" | "scenario-at" => {
            // vcheck probe|scenario-at <ID> <seed> <idx> <variant> <tier>
            let id = args[1].clone();
            let n = |i: usize| args[i].parse::<u64>().expect("number");
            let tier = if args[5] == "thorough" { Tier::Thorough } else { Tier::Quick };
            dispatch(id.as_str(), &Action::Probe(n(2), n(3), n(4), tier, args[0] == "scenario-at"))
        }
        "probe-json" => {
            let id = args[1].clone();
            dispatch(id.as_str(), &Action::ProbeJson(Path::new(&args[2])))
        }
        "survey" => {
            let id = args[1].clone();
            let n: u64 = args.get(2).and_then(|s| s.parse().ok()).unwrap_or(2000);
            dispatch(id.as_str(), &Action::Survey(seed, n))
        }
        #[cfg(feature = "kit-sim")]
        "c01-child" => {
            // fresh-process half of C01's cross-process comparison: print "<index> <digest>" lines
            let seed: u64 = args[1].parse().expect("seed");
            let n: u64 = args[2].parse().expect("n");
            for (i, d) in props::c01::child_digests(seed, n) {
                println!("{i} {d:016x}");
            }
            0
        }
        #[cfg(feature = "kit-sim")]
        "c20-child" => props::c20::child(&args[1]),
        #[cfg(feature = "kit-sim")]
        "c01-hunt" => {
            props::c01::hunt(args[1].parse().unwrap(), args[2].parse().unwrap(), args[3].parse().unwrap());
            0
        }
        "record" => {
            let id = args[1].clone();
            dispatch(id.as_str(), &Action::Record(Path::new(&args[2]), Path::new(&args[3])))
        }
        "selfcheck" => {
            let id = args[1].clone();
            let n: u64 = args.get(2).and_then(|s| s.parse().ok()).unwrap_or(2000);
            dispatch(id.as_str(), &Action::Selfcheck(seed, n))
        }
        id => {
            let mut tier = match std::env::var("VERIF_TIER").ok().as_deref() {
                Some("thorough") => Tier::Thorough,
                _ => Tier::Quick,
            };
            let mut count = None;
            let mut threads = std::thread::available_parallelism().map(|n| n.get()).unwrap_or(8).min(16);
            let mut i = 1;
            while i < args.len() {
                match args[i].as_str() {
                    "--tier" => {
                        tier = if args[i + 1] == "thorough" { Tier::Thorough } else { Tier::Quick };
                        i += 1;
                    }
                    "--count" => {
                        count = args[i + 1].parse().ok();
                        i += 1;
                    }
                    "--threads" => {
                        threads = args[i + 1].parse().unwrap_or(threads);
                        i += 1;
                    }
                    _ => {}
                }
                i += 1;
            }
            if std::env::var_os("VCHECK_INNER").is_none() && std::env::var_os("VCHECK_NO_SUPERVISOR").is_none() && id.len() == 3 && id.starts_with('C') {
                supervise(id, &args, seed, tier)
            } else {
                let opt = Options { tier, seed, threads, count_override: count };
                dispatch(id, &Action::Check(&opt))
            }
        }
    };
    std::process::exit(code);
}

// ------------------------------------------------------------------------------------------------
// The supervisor. The check itself runs in a child process. A change to the subject that makes the
// *process* die (a second panic while the first one unwinds aborts; so does a panic in a destructor) must
// come out as a violation with a replay file like any other, not as a dead checker.

fn died(st: &std::process::ExitStatus) -> bool {
    match st.code() {
        None => true,
        Some(c) => c >= 128,
    }
}

fn tier_name(t: Tier) -> &'static str {
    match t {
        Tier::Quick => "quick",
        Tier::Thorough => "thorough",
    }
}

fn supervise(id: &str, args: &[String], seed: u64, tier: Tier) -> i32 {
    use std::process::{Command, Stdio};
    let exe = std::env::current_exe().expect("current_exe");
    let dir = core::out_dir().join("tmp");
    let _ = std::fs::create_dir_all(&dir);
    let beacon = dir.join(format!("beacon-{}-{}.bin", id, std::process::id()));
    if std::fs::write(&beacon, vec![0xffu8; core::BEACON_SLOTS * 16]).is_err() {
        eprintln!("harness error: cannot write {}", beacon.display());
        return 2;
    }
    let st = Command::new(&exe).args(args).env("VCHECK_INNER", "1").env("VCHECK_BEACON", &beacon).status();
    let st = match st {
        Ok(s) => s,
        Err(e) => {
            eprintln!("harness error: cannot start the checking process: {e}");
            return 2;
        }
    };
    if !died(&st) {
        let _ = std::fs::remove_file(&beacon);
        return st.code().unwrap_or(2);
    }
    // the checking process died: which scenario was it?
    let cands = core::beacon_read(&beacon);
    let _ = std::fs::remove_file(&beacon);
    println!("the checking process died ({st}); {} scenarios were being executed at that moment, probing each in a process of its own", cands.len());
    let num = |x: u64| x.to_string();
    for (idx, variant) in cands {
        let pst = Command::new(&exe)
            .args(["probe", id, &num(seed), &num(idx), &num(variant), tier_name(tier)])
            .env("VCHECK_INNER", "1")
            .stdout(Stdio::null())
            .stderr(Stdio::piped())
            .output();
        let Ok(pout) = pst else { continue };
        if !died(&pout.status) {
            continue;
        }
        let err = String::from_utf8_lossy(&pout.stderr);
        let tail: Vec<&str> = err.lines().rev().take(3).collect();
        let tail: String = tail.into_iter().rev().collect::<Vec<_>>().join(" / ").chars().take(300).collect();
        // the scenario, printed by yet another child (generating the variants may execute the subject)
        let mut scen: Option<serde_json::Value> = None;
        for v in [variant, core::VARIANT_GENERATING] {
            if let Ok(o) = Command::new(&exe).args(["scenario-at", id, &num(seed), &num(idx), &num(v), tier_name(tier)]).env("VCHECK_INNER", "1").stderr(Stdio::null()).output() {
                if o.status.success() {
                    if let Ok(j) = serde_json::from_slice::<serde_json::Value>(&o.stdout) {
                        scen = Some(j);
                        break;
                    }
                }
            }
        }
        let Some(scen) = scen else { continue };
        let message = format!(
            "executing scenario {idx} (variant {}) of VERIF_SEED {seed} kills the process ({}) instead of returning a result: {}",
            if variant == core::VARIANT_GENERATING { "—, while its fault variants were being derived".to_string() } else { variant.to_string() },
            pout.status,
            if tail.is_empty() { "no output".to_string() } else { format!("stderr ends: {tail}") }
        );
        let file = serde_json::json!({
            "property": id,
            "harness_version": core::HARNESS_VERSION,
            "verif_seed": seed,
            "scenario_index": idx,
            "variant": if variant == core::VARIANT_GENERATING { 0 } else { variant },
            "minimised": false,
            "violation": {"class": "ProcessAborted", "message": message},
            "full_digest": "",
            "scenario": scen,
            "log": [],
        });
        let rdir = core::out_dir().join("replays").join(id);
        let _ = std::fs::create_dir_all(&rdir);
        let path = rdir.join(format!("{id}-seed{seed}-i{idx}-abort.json"));
        if std::fs::write(&path, serde_json::to_string_pretty(&file).unwrap()).is_err() {
            eprintln!("harness error: cannot write {}", path.display());
            return 2;
        }
        println!("violation class=ProcessAborted : {message}");
        println!("VIOLATION property={id} replay={}", path.display());
        return 1;
    }
    // ... or the process died while a violation was being minimised: the candidates noted next to the beacon
    let mut k = 0;
    loop {
        let f = std::path::PathBuf::from(format!("{}.shrink{k}", beacon.display()));
        k += 1;
        if k > core::BEACON_SLOTS {
            break;
        }
        let Ok(text) = std::fs::read_to_string(&f) else { continue };
        let _ = std::fs::remove_file(&f);
        let tmp = dir.join(format!("probe-{}-{}.json", id, std::process::id()));
        if std::fs::write(&tmp, &text).is_err() {
            continue;
        }
        let pst = Command::new(&exe).args(["probe-json", id, tmp.to_str().unwrap_or("")]).env("VCHECK_INNER", "1").stdout(Stdio::null()).stderr(Stdio::piped()).output();
        let _ = std::fs::remove_file(&tmp);
        let Ok(pout) = pst else { continue };
        if !died(&pout.status) {
            continue;
        }
        let Ok(scen) = serde_json::from_str::<serde_json::Value>(&text) else { continue };
        let message = format!("a scenario derived from a violating one of VERIF_SEED {seed} while it was being minimised kills the process ({}) instead of returning a result", pout.status);
        let file = serde_json::json!({
            "property": id, "harness_version": core::HARNESS_VERSION, "verif_seed": seed, "scenario_index": 0, "variant": 0, "minimised": false,
            "violation": {"class": "ProcessAborted", "message": message}, "full_digest": "", "scenario": scen, "log": [],
        });
        let rdir = core::out_dir().join("replays").join(id);
        let _ = std::fs::create_dir_all(&rdir);
        let path = rdir.join(format!("{id}-seed{seed}-shrunk-abort.json"));
        if std::fs::write(&path, serde_json::to_string_pretty(&file).unwrap()).is_err() {
            return 2;
        }
        println!("violation class=ProcessAborted : {message}");
        println!("VIOLATION property={id} replay={}", path.display());
        return 1;
    }
    eprintln!("harness error: the checking process died ({st}) and none of the scenarios in execution at that moment kills a process of its own");
    2
}

fn replay_is_abort(path: &Path) -> bool {
    std::fs::read_to_string(path).ok().and_then(|s| serde_json::from_str::<serde_json::Value>(&s).ok()).map(|v| v["violation"]["class"] == "ProcessAborted").unwrap_or(false)
}

/// Replay of a `ProcessAborted` file: in a child; its death is the reproduction.
fn supervise_replay(args: &[String]) -> i32 {
    let exe = std::env::current_exe().expect("current_exe");
    let st = std::process::Command::new(&exe).args(args).env("VCHECK_INNER", "1").status();
    match st {
        Ok(s) if died(&s) => {
            let v: serde_json::Value = serde_json::from_str(&std::fs::read_to_string(&args[1]).unwrap_or_default()).unwrap_or_default();
            println!("replayed: class=ProcessAborted the replaying process died ({s})");
            println!("VIOLATION property={} replay={}", v["property"].as_str().unwrap_or("?"), args[1]);
            1
        }
        Ok(s) => s.code().unwrap_or(2),
        Err(e) => {
            eprintln!("harness error: cannot start the replaying process: {e}");
            2
        }
    }
}
