#![allow(dead_code)]
//! vcheck — deterministic-simulation checks for the turmoil properties C01..C20.
//!
//!   vcheck <ID> --tier quick|thorough [--count N] [--threads N]
//!   vcheck replay <file>
//!   vcheck selfcheck <ID> [N]
//!
//! VERIF_SEED (default 1) decides everything. Exit 0 = held, 1 = VIOLATION, 2 = harness error.

mod core;
#[cfg(feature = "kit-fs")]
mod fskit;
#[cfg(feature = "kit-sim")]
mod simkit;
#[cfg(feature = "kit-wire")]
mod wirekit;
#[cfg(feature = "kit-wire2")]
mod wirekit2;
mod props;

use core::{Options, Tier};
use props::{dispatch, Action};
use std::path::Path;

fn main() {
    core::install_panic_hook();
    let args: Vec<String> = std::env::args().skip(1).collect();
    if args.is_empty() {
        eprintln!("usage: vcheck <ID> --tier quick|thorough | replay <file> | selfcheck <ID> [N]");
        std::process::exit(2);
    }
    let seed: u64 = std::env::var("VERIF_SEED").ok().and_then(|s| s.trim().parse().ok()).unwrap_or(1);
    let code = match args[0].as_str() {
        "replay" => {
            let path = Path::new(&args[1]);
            let s = std::fs::read_to_string(path).unwrap_or_else(|e| {
                eprintln!("harness error: cannot read {}: {e}", path.display());
                std::process::exit(2)
            });
            let v: serde_json::Value = serde_json::from_str(&s).unwrap_or_else(|e| {
                eprintln!("harness error: cannot parse {}: {e}", path.display());
                std::process::exit(2)
            });
            let id = v["property"].as_str().unwrap_or("").to_string();
            dispatch(id.as_str(), &Action::Replay(path))
        }
        "survey" => {
            let id = args[1].clone();
            let n: u64 = args.get(2).and_then(|s| s.parse().ok()).unwrap_or(2000);
            dispatch(id.as_str(), &Action::Survey(seed, n))
        }
        #[cfg(feature = "kit-sim")]
        "c01-child" => {
            // fresh-process half of C01's cross-process comparison: print "<index> <digest>" lines
            let seed: u64 = args[1].parse().expect("seed");
            let n: u64 = args[2].parse().expect("n");
            for (i, d) in props::c01::child_digests(seed, n) {
                println!("{i} {d:016x}");
            }
            0
        }
        #[cfg(feature = "kit-sim")]
        "c20-child" => props::c20::child(&args[1]),
        #[cfg(feature = "kit-sim")]
        "c01-hunt" => {
            props::c01::hunt(args[1].parse().unwrap(), args[2].parse().unwrap(), args[3].parse().unwrap());
            0
        }
        "record" => {
            let id = args[1].clone();
            dispatch(id.as_str(), &Action::Record(Path::new(&args[2]), Path::new(&args[3])))
        }
        "selfcheck" => {
            let id = args[1].clone();
            let n: u64 = args.get(2).and_then(|s| s.parse().ok()).unwrap_or(2000);
            dispatch(id.as_str(), &Action::Selfcheck(seed, n))
        }
        id => {
            let mut tier = match std::env::var("VERIF_TIER").ok().as_deref() {
                Some("thorough") => Tier::Thorough,
                _ => Tier::Quick,
            };
            let mut count = None;
            let mut threads = std::thread::available_parallelism().map(|n| n.get()).unwrap_or(8).min(16);
            let mut i = 1;
            while i < args.len() {
                match args[i].as_str() {
                    "--tier" => {
                        tier = if args[i + 1] == "thorough" { Tier::Thorough } else { Tier::Quick };
                        i += 1;
                    }
                    "--count" => {
                        count = args[i + 1].parse().ok();
                        i += 1;
                    }
                    "--threads" => {
                        threads = args[i + 1].parse().unwrap_or(threads);
                        i += 1;
                    }
                    _ => {}
                }
                i += 1;
            }
            let opt = Options { tier, seed, threads, count_override: count };
            dispatch(id, &Action::Check(&opt))
        }
    };
    std::process::exit(code);
}
