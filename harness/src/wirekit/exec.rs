//! A tiny deterministic executor: futures are polled by hand, only when their flag waker fired
//! (or when the scenario asks for a spurious poll), in an order the scenario decides.
//! `set_current(host)` is called before every poll and before every drop of a task, because the
//! shim's socket operations (including `Drop`) talk to "the current host" of the installed `Net`.

use serde::{Deserialize, Serialize};
use std::cell::{Cell, RefCell};
use std::future::Future;
use std::pin::Pin;
use std::rc::Rc;
use std::sync::atomic::{AtomicBool, Ordering};
use std::sync::Arc;
use std::task::{Context, Poll, Wake, Waker};
use turmoil_net::{EnterGuard, HostId};

pub type BoxFut = Pin<Box<dyn Future<Output = ()>>>;

struct Flag(AtomicBool);

impl Wake for Flag {
    fn wake(self: Arc<Self>) {
        self.0.store(true, Ordering::SeqCst);
    }
    fn wake_by_ref(self: &Arc<Self>) {
        self.0.store(true, Ordering::SeqCst);
    }
}

struct Task {
    host: HostId,
    name: &'static str,
    fut: Option<BoxFut>,
    flag: Arc<Flag>,
    waker: Waker,
}

/// Handle through which running tasks add new tasks (picked up at the start of the next poll phase).
#[derive(Clone, Default)]
pub struct Spawner(Rc<RefCell<Vec<(HostId, &'static str, BoxFut)>>>);

impl Spawner {
    pub fn spawn(&self, host: HostId, name: &'static str, fut: impl Future<Output = ()> + 'static) {
        self.0.borrow_mut().push((host, name, Box::pin(fut)));
    }
}

/// Order in which the tasks that are ready in one round are polled.
#[derive(Clone, Copy, Debug, PartialEq, Eq, Serialize, Deserialize)]
pub enum PollOrder {
    /// creation order
    Fwd,
    /// reverse creation order
    Rev,
    /// creation order rotated by the round number
    Rot,
    /// forward on even rounds, reverse on odd rounds
    Alt,
}

impl PollOrder {
    fn apply(self, ready: &mut [usize], round: u32) {
        match self {
            PollOrder::Fwd => {}
            PollOrder::Rev => ready.reverse(),
            PollOrder::Rot => {
                if !ready.is_empty() {
                    let k = round as usize % ready.len();
                    ready.rotate_left(k);
                }
            }
            PollOrder::Alt => {
                if round % 2 == 1 {
                    ready.reverse()
                }
            }
        }
    }
}

#[derive(Default)]
pub struct Executor {
    tasks: Vec<Task>,
    pub spawner: Spawner,
    pub polls: u64,
}

impl Executor {
    pub fn new() -> Self {
        Self::default()
    }

    fn absorb(&mut self) {
        let new: Vec<_> = self.spawner.0.borrow_mut().drain(..).collect();
        for (host, name, fut) in new {
            let flag = Arc::new(Flag(AtomicBool::new(true)));
            let waker = Waker::from(flag.clone());
            self.tasks.push(Task { host, name, fut: Some(fut), flag, waker });
        }
    }

    /// Poll every live task whose waker fired before this phase started (all live tasks when
    /// `force_all`), once each, in the given order. Tasks woken or spawned during the phase wait
    /// for the next one. Returns the number of polls made.
    pub fn poll_phase(&mut self, guard: &EnterGuard, order: PollOrder, round: u32, force_all: bool) -> u32 {
        self.absorb();
        let mut ready: Vec<usize> = (0..self.tasks.len())
            .filter(|&i| self.tasks[i].fut.is_some() && (force_all || self.tasks[i].flag.0.load(Ordering::SeqCst)))
            .collect();
        order.apply(&mut ready, round);
        let n = ready.len() as u32;
        for i in ready {
            let t = &mut self.tasks[i];
            t.flag.0.store(false, Ordering::SeqCst);
            guard.set_current(t.host);
            let mut cx = Context::from_waker(&t.waker);
            self.polls += 1;
            if let Some(f) = t.fut.as_mut() {
                if f.as_mut().poll(&mut cx).is_ready() {
                    t.fut = None;
                }
            }
        }
        n
    }

    pub fn live(&self) -> usize {
        self.tasks.iter().filter(|t| t.fut.is_some()).count() + self.spawner.0.borrow().len()
    }

    pub fn pending_names(&self) -> Vec<&'static str> {
        self.tasks.iter().filter(|t| t.fut.is_some()).map(|t| t.name).collect()
    }

    /// Drop every remaining task with its host current (socket `Drop` calls into the kernel).
    /// Must run before the `EnterGuard` is dropped.
    pub fn drop_all(&mut self, guard: &EnterGuard) {
        self.absorb();
        for t in self.tasks.iter_mut() {
            if t.fut.is_some() {
                guard.set_current(t.host);
                t.fut = None;
            }
        }
    }

    /// After a panic of the subject: never run socket destructors against a kernel in an unknown state.
    pub fn leak(mut self) {
        for t in self.tasks.drain(..) {
            std::mem::forget(t.fut);
        }
        let v: Vec<_> = self.spawner.0.borrow_mut().drain(..).collect();
        std::mem::forget(v);
    }
}

/// One-shot gate between two tasks of the same side.
#[derive(Default)]
pub struct Gate {
    open: Cell<bool>,
    waker: RefCell<Option<Waker>>,
}

impl Gate {
    pub fn open(&self) {
        self.open.set(true);
        if let Some(w) = self.waker.borrow_mut().take() {
            w.wake();
        }
    }
    pub fn is_open(&self) -> bool {
        self.open.get()
    }
    pub fn wait(&self) -> impl Future<Output = ()> + '_ {
        std::future::poll_fn(move |cx| {
            if self.open.get() {
                Poll::Ready(())
            } else {
                *self.waker.borrow_mut() = Some(cx.waker().clone());
                Poll::Pending
            }
        })
    }
}

/// Yield until the next round: wakes itself and returns `Pending` once.
pub fn next_round() -> impl Future<Output = ()> {
    let mut yielded = false;
    std::future::poll_fn(move |cx| {
        if yielded {
            Poll::Ready(())
        } else {
            yielded = true;
            cx.waker().wake_by_ref();
            Poll::Pending
        }
    })
}
