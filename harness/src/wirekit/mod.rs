//! wirekit: being the wire of `turmoil-net` (see DESIGN.md section 4.2).
