//! wirekit: being the wire of `turmoil-net` (see DESIGN.md section 4.2).
//!
//! * `exec` — a tiny deterministic executor (flag wakers, scenario-chosen poll order, `set_current`
//!   before every poll).
//! * `wire` — packet classifier, per-direction connection tracker, fault plan types.
//! * `conn` — the scenario type, the application programs, the round loop (poll, egress, fate,
//!   deliver) with the C06 oracle and the C16 monitors.
//! * `fixture` — the same programs and fault plans end-to-end through turmoil-net's own
//!   `fixture::ClientServer` / `fixture::lo` (plan installed as a `Rule` closure).
//! * `gen`  — seeded generation, systematic fault placement, shrinking, known-defect predicates.

pub mod conn;
pub mod exec;
pub mod fixture;
pub mod gen;
pub mod wire;
