//! The same application programs and fault plans, end-to-end through turmoil-net's own reference
//! harness: `fixture::ClientServer` (two hosts) and `fixture::lo` (loopback). The fault plan is
//! installed as a `Rule` closure (drop = `Verdict::Drop`, delay k = `Verdict::Deliver(k ms)`, one
//! fixture tick being 1 ms of the paused tokio clock). Deterministic: the runtime is
//! current-thread with paused time, and nothing here reads a clock or draws a random number.

use super::conn::*;
use super::exec::{Gate, Spawner};
use super::wire::*;
use crate::core::{self, Counters, Violation};
use std::cell::{Cell, RefCell};
use std::future::Future;
use std::net::{IpAddr, Ipv4Addr, Ipv6Addr, SocketAddr};
use std::rc::Rc;
use std::task::Poll;
use std::time::Duration;
use turmoil_net::fixture::{lo_with_config, ClientServer};
use turmoil_net::shim::tokio::net::{TcpListener, TcpStream};
use turmoil_net::{rule, Packet, Verdict};

struct Fx {
    wire: RefCell<Wire>,
    fates: RefCell<Fates>,
    faults: RefCell<Counters>,
    packets: RefCell<Vec<PktRec>>,
    data_segments: Cell<u32>,
    tick: Cell<u64>,
    /// last tick at which a planned fault was (still) acting
    fault_until: Cell<u64>,
    server_done: Gate,
}

async fn join2<A: Future<Output = ()>, B: Future<Output = ()>>(a: A, b: B) {
    let mut a = Box::pin(a);
    let mut b = Box::pin(b);
    let (mut da, mut db) = (false, false);
    std::future::poll_fn(move |cx| {
        if !da && a.as_mut().poll(cx).is_ready() {
            da = true;
        }
        if !db && b.as_mut().poll(cx).is_ready() {
            db = true;
        }
        if da && db {
            Poll::Ready(())
        } else {
            Poll::Pending
        }
    })
    .await
}

async fn client_part(sh: Rc<Shared>, addr: SocketAddr) {
    match TcpStream::connect(addr).await {
        Ok(s) => {
            sh.on_connected(CLIENT, &s);
            let (r, w) = s.into_split();
            join2(reader(sh.clone(), CLIENT, r), writer(sh.clone(), CLIENT, w)).await;
        }
        Err(e) => sh.op_err(CLIENT, "connect", e),
    }
}

async fn server_part(sh: Rc<Shared>, addr: SocketAddr) {
    let l = match TcpListener::bind(addr).await {
        Ok(l) => l,
        Err(e) => {
            sh.obs.borrow_mut().harness_error = Some(format!("server bind {addr} failed: {e}"));
            return;
        }
    };
    match l.accept().await {
        Ok((s, _)) => {
            sh.on_connected(SERVER, &s);
            let (r, w) = s.into_split();
            join2(reader(sh.clone(), SERVER, r), writer(sh.clone(), SERVER, w)).await;
        }
        Err(e) => sh.op_err(SERVER, "accept", e),
    }
}

/// Ticks along with the fixture (one `sleep(1 ms)` per scheduler tick), runs the queue monitors
/// and decides when the run is stalled. Returns when a verdict is reached.
async fn watchdog(sh: Rc<Shared>, fx: Rc<Fx>, sc: Scenario, mode: Mode, ips: Vec<IpAddr>) {
    let limit = quiet_limit(&sc.cfg, &sc.plan) as u64;
    let mut last_progress = 0u64;
    let mut last_active = 0u64;
    loop {
        tokio::time::sleep(Duration::from_millis(1)).await;
        let t = fx.tick.get() + 1;
        fx.tick.set(t);
        sh.round.set(t as u32);
        if sh.sleepers.get() > 0 {
            last_active = t;
        }
        let mut o = sh.obs.borrow_mut();
        if !ips.is_empty() {
            check_queues(&sc.cfg, &ips, &mut o, "after a fixture tick");
        }
        if o.progress != last_progress {
            last_progress = o.progress;
            last_active = t;
        }
        last_active = last_active.max(fx.fault_until.get().min(t));
        if o.v6.is_some() || o.harness_error.is_some() {
            return;
        }
        if t - last_active > limit {
            match mode {
                Mode::Bounded => {
                    let msg = format!(
                        "no application progress for {limit} fixture ticks after the last fault (tick {last_active}): client read {}/{} wrote {}/{}; server read {}/{} wrote {}/{}",
                        o.read[0],
                        sc.sides[1].total(),
                        o.accepted[0],
                        sc.sides[0].total(),
                        o.read[1],
                        sc.sides[0].total(),
                        o.accepted[1],
                        sc.sides[1].total()
                    );
                    o.fail6("Stall", msg);
                }
                _ => o.probes.inc("safety_only_run_ended_stalled"),
            }
            return;
        }
        if t > 200_000 {
            o.harness_error = Some("fixture tick cap of 200000 hit".into());
            return;
        }
    }
}

fn plan_rule(sh: Rc<Shared>, fx: Rc<Fx>, plan: Plan) -> impl FnMut(&Packet) -> Verdict {
    move |pkt: &Packet| {
        let (info, nth) = {
            let mut w = fx.wire.borrow_mut();
            let info = w.on_egress(pkt);
            let nth = w.nth_of_kind(&info);
            (info, nth)
        };
        fx.packets.borrow_mut().push(PktRec { dir: info.dir, kind: info.kind, len: info.len });
        if info.kind == Kind::Data {
            fx.data_segments.set(fx.data_segments.get() + 1);
        }
        let mut o = sh.obs.borrow_mut();
        check_sizes(&fx.wire.borrow(), pkt, &info, &mut o);
        let fate = fx.fates.borrow_mut().decide(&plan, &info, nth);
        let t = fx.tick.get();
        if info.kind == Kind::Fin && !matches!(fate, Fate::Drop | Fate::Hole) {
            sh.fin_delivered[1 - info.dir as usize].set(true);
        }
        let (verdict, name) = match fate {
            Fate::Now => (Verdict::Pass, "pass".to_string()),
            Fate::Hold(k) => {
                fx.faults.borrow_mut().inc(&format!("delay_{}", info.kind.name()));
                fx.fault_until.set(fx.fault_until.get().max(t + k as u64 + 1));
                o.log.tag("held");
                (Verdict::Deliver(Duration::from_millis(k as u64)), format!("Deliver({k}ms)"))
            }
            Fate::Drop => {
                fx.faults.borrow_mut().inc(&format!("drop_{}", info.kind.name()));
                fx.fault_until.set(fx.fault_until.get().max(t + 1));
                o.log.tag("dropped");
                (Verdict::Drop, "Drop".to_string())
            }
            Fate::Hole => {
                fx.faults.borrow_mut().inc("blackhole_drop");
                (Verdict::Drop, "Drop(blackhole)".to_string())
            }
        };
        o.log.ev(format!(
            "t{t} rule #{} {} {} seq={} len={} ack={} wnd={} -> {name}",
            info.idx,
            if info.dir == C2S { "c>s" } else { "s>c" },
            info.kind.name(),
            info.rel_seq as i32,
            info.len,
            if info.has_ack { info.rel_ack as i64 } else { -1 },
            info.window
        ));
        o.log.tag(info.kind.name());
        verdict
    }
}

pub fn run_fixture(sc: &Scenario, keep: bool) -> Outcome {
    let mode = match mode_of(sc) {
        Mode::Exhaustion => Mode::SafetyOnly, // the hang verdict needs the wire's view; not judged here
        m => m,
    };
    let cross = sc.topo.cross();
    let sh = Rc::new(Shared {
        obs: RefCell::new(Obs::new(keep, mode)),
        sides: sc.sides.clone(),
        first_byte: [Gate::default(), Gate::default()],
        writer_done: [Gate::default(), Gate::default()],
        consumed: [Gate::default(), Gate::default()],
        lo_side: None,
        rst_lost: Default::default(),
        fin_delivered: Default::default(),
        round: Default::default(),
        sleepers: Default::default(),
        hole_round: Default::default(),
        spawner: Spawner::default(),
        hosts: None,
        stat_ip: if cross { Some([IpAddr::V4(C4), IpAddr::V4(S4)]) } else { None },
        cfg: sc.cfg.clone(),
    });
    let fx = Rc::new(Fx {
        wire: RefCell::new(Wire::new(vec![IpAddr::V4(C4), IpAddr::V6(C6)], sc.cfg.mtu, sc.cfg.lo_mtu)),
        fates: RefCell::new(Fates::new(&sc.plan)),
        faults: RefCell::new(Counters::default()),
        packets: RefCell::new(Vec::new()),
        data_segments: Cell::new(0),
        tick: Cell::new(0),
        fault_until: Cell::new(0),
        server_done: Gate::default(),
    });
    sh.obs.borrow_mut().probes.inc("via_fixture");

    let v6 = sc.topo.v6();
    let wild: IpAddr = if v6 { IpAddr::V6(Ipv6Addr::UNSPECIFIED) } else { IpAddr::V4(Ipv4Addr::UNSPECIFIED) };
    let res = if cross {
        let srv_ip: IpAddr = if v6 { IpAddr::V6(S6) } else { IpAddr::V4(S4) };
        let bind = SocketAddr::new(if sc.bind_wild { wild } else { srv_ip }, PORT);
        let dst = SocketAddr::new(srv_ip, PORT);
        let (sh_s, fx_s) = (sh.clone(), fx.clone());
        let (sh_c, fx_c) = (sh.clone(), fx.clone());
        let scc = sc.clone();
        core::catch(move || {
            ClientServer::with_config(scc.cfg.kernel())
                .server(vec![IpAddr::V4(S4), IpAddr::V6(S6)], async move {
                    server_part(sh_s, bind).await;
                    fx_s.server_done.open();
                })
                .run(vec![IpAddr::V4(C4), IpAddr::V6(C6)], async move {
                    rule(plan_rule(sh_c.clone(), fx_c.clone(), scc.plan.clone())).forget();
                    let body = {
                        let (sh2, fx2) = (sh_c.clone(), fx_c.clone());
                        async move {
                            client_part(sh2, dst).await;
                            fx2.server_done.wait().await;
                        }
                    };
                    let wd = watchdog(sh_c.clone(), fx_c.clone(), scc.clone(), mode, vec![IpAddr::V4(C4), IpAddr::V4(S4)]);
                    race(body, wd).await;
                })
        })
    } else {
        let lo_ip: IpAddr = if v6 { IpAddr::V6(Ipv6Addr::LOCALHOST) } else { IpAddr::V4(Ipv4Addr::LOCALHOST) };
        let bind = SocketAddr::new(if sc.bind_wild { wild } else { lo_ip }, PORT);
        let dst = SocketAddr::new(lo_ip, PORT);
        let (sh_c, fx_c) = (sh.clone(), fx.clone());
        let scc = sc.clone();
        core::catch(move || {
            lo_with_config(scc.cfg.kernel(), async move {
                let body = join2(server_part(sh_c.clone(), bind), client_part(sh_c.clone(), dst));
                let wd = watchdog(sh_c.clone(), fx_c.clone(), scc.clone(), mode, vec![]);
                race(body, wd).await;
            })
        })
    };

    let mut o = sh.obs.borrow_mut();
    if let Err(m) = res {
        let msg = format!("the stack (or its fixture) panicked: {m}");
        o.log.ev(format!("!! PANIC {m}"));
        if o.v6.is_none() {
            o.v6 = Some(Violation::new("Panic", msg.clone()));
        }
        if o.v16.is_none() {
            o.v16 = Some(Violation::new("Panic", msg));
        }
    }
    let w = fx.wire.borrow();
    let zero_window_seen = w.dirs[0].zero_window_advertised || w.dirs[1].zero_window_advertised;
    let mut probes = std::mem::take(&mut o.probes);
    if zero_window_seen {
        probes.inc("zero_window_advertised");
    }
    if o.sendbuf_full_seen {
        probes.inc("send_buffer_reached_cap");
    }
    let fired = fx.fates.borrow().fired.clone();
    let packets = fx.packets.borrow().clone();
    let faults = fx.faults.borrow().clone();
    Outcome {
        mode,
        v6: o.v6.take(),
        v16: o.v16.take(),
        log: std::mem::take(&mut o.log),
        faults,
        probes,
        rounds: fx.tick.get() as u32,
        packets,
        fired,
        data_segments: fx.data_segments.get(),
        zero_window_seen,
        sendbuf_full_seen: o.sendbuf_full_seen,
        harness_error: o.harness_error.take(),
        errors: std::mem::take(&mut o.errors),
    }
}

/// Resolves as soon as either future does.
async fn race<A: Future<Output = ()>, B: Future<Output = ()>>(a: A, b: B) {
    let mut a = Box::pin(a);
    let mut b = Box::pin(b);
    std::future::poll_fn(move |cx| {
        if a.as_mut().poll(cx).is_ready() || b.as_mut().poll(cx).is_ready() {
            Poll::Ready(())
        } else {
            Poll::Pending
        }
    })
    .await
}
