//! One TCP connection (plus optional UDP probes) between two application programs, driven over
//! the harness-owned wire with a fault plan. `run_conn` is a pure function of the `Scenario`.
//!
//! Shared by C06 (safety / liveness / exhaustion verdicts, `v6`) and C16 (limit monitors, `v16`).

use super::exec::{next_round, Executor, Gate, PollOrder, Spawner};
use super::wire::*;
use crate::core::{self, Counters, Log, Violation};
use serde::{Deserialize, Serialize};
use std::cell::RefCell;
use std::io;
use std::net::{IpAddr, Ipv4Addr, Ipv6Addr, SocketAddr};
use std::pin::Pin;
use std::rc::Rc;
use std::task::Poll;
use tokio::io::{AsyncRead, AsyncWrite, AsyncWriteExt, ReadBuf};
use turmoil_net::shim::tokio::net::tcp::{OwnedReadHalf, OwnedWriteHalf};
use turmoil_net::shim::tokio::net::{TcpListener, TcpStream, UdpSocket};
use turmoil_net::{netstat, EnterGuard, HostId, KernelConfig, Net, NetstatState, Packet, Proto, Transport};

pub const PORT: u16 = 9000;
pub const CLIENT: usize = 0;
pub const SERVER: usize = 1;

// ------------------------------------------------------------------------------------------------
// scenario

#[derive(Clone, Debug, PartialEq, Eq, Serialize, Deserialize)]
pub struct Cfg {
    pub mtu: u32,
    pub lo_mtu: u32,
    pub send_cap: u32,
    pub recv_cap: u32,
    pub retx_threshold: u32,
    pub retx_max: u32,
}

impl Cfg {
    pub fn kernel(&self) -> KernelConfig {
        KernelConfig::default()
            .mtu(self.mtu)
            .loopback_mtu(self.lo_mtu)
            .send_buf_cap(self.send_cap as usize)
            .recv_buf_cap(self.recv_cap as usize)
            .retx_threshold(self.retx_threshold)
            .retx_max(self.retx_max)
    }
    /// Egress rounds without acknowledgement progress after which the stack gives up.
    pub fn budget_rounds(&self) -> u32 {
        self.retx_threshold * (self.retx_max + 1)
    }
}

#[derive(Clone, Copy, Debug, PartialEq, Eq, Serialize, Deserialize)]
pub enum Topo {
    /// two hosts, IPv4
    CrossV4,
    /// two hosts, IPv6
    CrossV6,
    /// one host, 127.0.0.1 (no packet ever reaches the wire)
    LoopV4,
    /// one host, ::1
    LoopV6,
    /// one host, client connects to the host's own non-loopback IPv4 address
    OwnV4,
}

impl Topo {
    pub fn cross(self) -> bool {
        matches!(self, Topo::CrossV4 | Topo::CrossV6)
    }
    pub fn v6(self) -> bool {
        matches!(self, Topo::CrossV6 | Topo::LoopV6)
    }
    pub fn ip_hdr(self) -> u32 {
        if self.v6() {
            IPV6_HDR
        } else {
            IPV4_HDR
        }
    }
    /// MSS of a connection of this topology under `cfg`, per the property: MTU of the interface the
    /// segment leaves from minus IP header minus 20 bytes TCP header.
    pub fn mss(self, cfg: &Cfg) -> u32 {
        let mtu = if matches!(self, Topo::LoopV4 | Topo::LoopV6) { cfg.lo_mtu } else { cfg.mtu };
        mtu.saturating_sub(self.ip_hdr()).saturating_sub(TCP_HDR)
    }
}

#[derive(Clone, Copy, Debug, PartialEq, Eq, Serialize, Deserialize)]
pub enum Close {
    /// `shutdown().await` after the last write, keep reading until EOF
    Shutdown,
    /// drop the owned write half after the last write (shuts the write side down)
    DropHalf,
    /// `forget` the write half; the stream is closed by dropping it once the reader saw EOF
    AfterEof,
    /// one-shot server style: read exactly what the peer is going to send, only then write, and drop the
    /// whole stream right after the last write was accepted — without waiting for the peer's end-of-file
    DropAll,
    /// like `DropAll`, but the reader stops after half of what the peer sends: the stream is dropped with
    /// inbound data unread or still on its way — an abortive close. The peer may see its stream end with
    /// ConnectionReset / BrokenPipe from then on, but nobody may be left waiting, and what is read stays a prefix
    Abort,
}

#[derive(Clone, Debug, PartialEq, Eq, Serialize, Deserialize)]
pub struct Side {
    /// write chunk sizes, in order (0-byte writes allowed)
    pub writes: Vec<u32>,
    /// use `try_write` (yielding a round on WouldBlock) instead of `poll_write`
    pub try_write: bool,
    /// reader buffer sizes, cycled (each >= 1)
    pub reads: Vec<u32>,
    /// peek before every k-th read (0 = never)
    pub peek: u8,
    pub close: Close,
    /// do not write (nor close) before the first byte or EOF from the peer was read
    pub wait_first: bool,
    /// late reader: the first read is issued only this many rounds after the connection is up
    #[serde(default)]
    pub read_delay: u32,
    /// sequential application: the first read is issued only when the own writer has finished
    /// (all chunks accepted and the write side closed, or a write failed)
    #[serde(default)]
    pub read_after_write: bool,
}

impl Side {
    pub fn total(&self) -> u64 {
        self.writes.iter().map(|w| *w as u64).sum()
    }
    pub fn min_read(&self) -> u32 {
        self.reads.iter().copied().min().unwrap_or(1)
    }
}

/// Through which call a UDP size probe is sent.
#[derive(Clone, Copy, Debug, PartialEq, Eq, Serialize, Deserialize, Default)]
pub enum UdpHow {
    #[default]
    SendTo,
    TrySendTo,
    /// `connect(dst)` first, then `send`
    ConnSend,
    /// `connect(dst)` first, then `try_send`
    ConnTrySend,
}

#[derive(Clone, Copy, Debug, PartialEq, Eq, Serialize, Deserialize)]
pub struct UdpOp {
    pub v6: bool,
    /// destination is the loopback address (else the other host / own address)
    pub lo: bool,
    pub size: u32,
    #[serde(default)]
    pub how: UdpHow,
    /// the sending socket is bound to the loopback address instead of the wildcard (with `lo == false`
    /// the datagram still has to cross the wire: only the oversize clause is judged then)
    #[serde(default)]
    pub bind_lo: bool,
}

/// Who moves the packets.
#[derive(Clone, Copy, Debug, PartialEq, Eq, Serialize, Deserialize, Default)]
pub enum Via {
    /// the harness-owned wire and executor of this module
    #[default]
    Wire,
    /// turmoil-net's own `fixture::ClientServer` / `fixture::lo` (paused tokio runtime, built-in
    /// scheduler); the fault plan is installed as a `Rule` closure
    Fixture,
}

#[derive(Clone, Debug, PartialEq, Eq, Serialize, Deserialize)]
pub struct Scenario {
    /// generated with the triggers of the known defects avoided
    pub guarded: bool,
    #[serde(default)]
    pub via: Via,
    pub cfg: Cfg,
    pub topo: Topo,
    /// server binds the wildcard address
    pub bind_wild: bool,
    pub sides: [Side; 2],
    pub plan: Plan,
    pub poll: PollOrder,
    /// every k-th round every live task is polled although nothing woke it (0 = never)
    pub spurious: u8,
    pub udp: Vec<UdpOp>,
    /// cross-host topologies, own wire only: before the judged connection is opened, the client host opens
    /// a TCP connection to itself through the loopback address and keeps writing on it, so that one egress
    /// pass of that host segments data for two interfaces with different MTUs
    #[serde(default)]
    pub lo_side: Option<LoSide>,
}

#[derive(Clone, Debug, PartialEq, Eq, Serialize, Deserialize)]
pub struct LoSide {
    pub chunk: u32,
    pub chunks: u8,
    /// rounds between two chunks
    pub gap: u8,
}

/// A workload in which no side waits for something the other side never does.
pub fn workload_ok(s: &[Side; 2]) -> bool {
    if s[0].close == Close::AfterEof && s[1].close == Close::AfterEof {
        return false;
    }
    if s[0].wait_first && s[1].wait_first {
        return false;
    }
    let one_shot = |c: Close| matches!(c, Close::DropAll | Close::Abort);
    if one_shot(s[0].close) && one_shot(s[1].close) {
        return false;
    }
    // a reader that waits for its own writer must have a peer that keeps reading, and a writer
    // that does not in turn wait for that reader
    if s[0].read_after_write && s[1].read_after_write {
        return false;
    }
    for x in 0..2 {
        let p = 1 - x;
        if s[x].read_after_write && (s[x].wait_first || s[x].close == Close::AfterEof && s[p].close == Close::AfterEof) {
            return false;
        }
        // x waits for a byte or EOF from p: p must produce one without waiting for x's EOF
        if s[x].wait_first && s[p].total() == 0 && s[p].close == Close::AfterEof {
            return false;
        }
        if s[x].reads.is_empty() || s[x].reads.iter().any(|r| *r == 0) {
            return false;
        }
        // x answers only after it has read everything p sends: p must send it without waiting for x
        if one_shot(s[x].close) && (s[x].read_after_write || s[p].wait_first && s[p].total() > 0) {
            return false;
        }
        // x stops reading half way but still has to write before it drops the stream: p must keep reading
        if s[x].close == Close::Abort && s[p].read_after_write {
            return false;
        }
    }
    true
}

#[derive(Clone, Copy, Debug, PartialEq, Eq)]
pub enum Mode {
    /// premise of the liveness clause holds: safety + liveness + no error
    Bounded,
    /// everything is lost from some point on: safety + "error, never a hang"
    Exhaustion,
    /// more loss / delay than the premise allows: safety only
    SafetyOnly,
}

/// The premise "bounded" of C06, made checkable: fewer drops than the retransmit budget of a
/// single segment (`D <= retx_max - 1`), and — when packets are also delayed by up to `d` rounds —
/// `T*D + 2*d + 4 <= T*(retx_max+1)`: every drop costs one retransmission interval `T`, the
/// segment that finally gets through and its ACK may each be `d` rounds late, and the sum must end
/// before the stack's abort point `T*(retx_max+1)`, with 4 rounds of quantisation slack (the round
/// in which the segment is emitted, the receiver's ACK leaving one round after delivery, and the
/// inclusive/exclusive reading of "round trip below").
pub fn plan_is_bounded(cfg: &Cfg, plan: &Plan) -> bool {
    if plan.hole != Hole::None {
        return false;
    }
    let (t, m) = (cfg.retx_threshold, cfg.retx_max);
    let d = plan.drops();
    let dm = plan.max_delay();
    if m == 0 || d + 1 > m {
        return false;
    }
    if dm == 0 {
        return true;
    }
    t * d + 2 * dm + 4 <= t * (m + 1)
}

/// Largest single delay that keeps a plan with `drops` drops inside the premise (0 = none).
pub fn max_bounded_delay(cfg: &Cfg, drops: u32) -> u32 {
    let (t, m) = (cfg.retx_threshold, cfg.retx_max);
    if drops + 1 > m {
        return 0;
    }
    let room = (t * (m + 1)).saturating_sub(t * drops).saturating_sub(4);
    room / 2
}

pub fn mode_of(sc: &Scenario) -> Mode {
    if sc.plan.hole != Hole::None {
        Mode::Exhaustion
    } else if plan_is_bounded(&sc.cfg, &sc.plan) {
        Mode::Bounded
    } else {
        Mode::SafetyOnly
    }
}

/// Rounds without any application-level progress (and without fault activity) after which a run
/// with outstanding obligations is declared stalled. Generous: the stack itself gives up on a
/// segment after `budget_rounds`, so a live connection makes progress well inside this.
pub fn quiet_limit(cfg: &Cfg, plan: &Plan) -> u32 {
    cfg.budget_rounds() + 2 * plan.max_delay() + 8
}

/// Payload byte at absolute offset `off` of the stream written by `side`.
pub fn pat(side: usize, off: u64) -> u8 {
    (off.wrapping_mul(31).wrapping_add((off >> 8).wrapping_mul(7)).wrapping_add(side as u64 * 101 + 17) & 0xff) as u8
}

// ------------------------------------------------------------------------------------------------
// observations shared between the tasks and the driver

pub struct Obs {
    pub log: Log,
    pub mode: Mode,
    pub accepted: [u64; 2],
    pub read: [u64; 2],
    pub eof: [bool; 2],
    /// the side has closed (or is about to close) its write direction
    pub closing: [bool; 2],
    /// the side has dropped its stream with inbound data unread (abortive close)
    pub aborted: [bool; 2],
    pub connected: [bool; 2],
    pub errors: Vec<(usize, &'static str, io::ErrorKind)>,
    pub progress: u64,
    pub v6: Option<Violation>,
    pub v16: Option<Violation>,
    pub probes: Counters,
    pub sendbuf_full_seen: bool,
    pub harness_error: Option<String>,
}

impl Obs {
    pub(super) fn new(keep: bool, mode: Mode) -> Obs {
        Obs {
            log: Log::new(keep),
            mode,
            accepted: [0; 2],
            read: [0; 2],
            eof: [false; 2],
            closing: [false; 2],
            aborted: [false; 2],
            connected: [false; 2],
            errors: Vec::new(),
            progress: 0,
            v6: None,
            v16: None,
            probes: Counters::default(),
            sendbuf_full_seen: false,
            harness_error: None,
        }
    }
    pub(super) fn fail6(&mut self, class: &str, msg: String) {
        self.log.ev(format!("!! C06 {class}: {msg}"));
        if self.v6.is_none() {
            self.v6 = Some(Violation::new(class, msg));
        }
    }
    pub(super) fn fail16(&mut self, class: &str, msg: String) {
        self.log.ev(format!("!! C16 {class}: {msg}"));
        if self.v16.is_none() {
            self.v16 = Some(Violation::new(class, msg));
        }
    }
}

pub struct Shared {
    pub obs: RefCell<Obs>,
    pub sides: [Side; 2],
    pub first_byte: [Gate; 2],
    /// opened when the writer of the side has returned (finished or failed)
    pub writer_done: [Gate; 2],
    /// opened when the reader of a `Close::DropAll` side has consumed everything the peer sends (or failed)
    pub consumed: [Gate; 2],
    pub lo_side: Option<LoSide>,
    /// the plan has lost a RST
    pub rst_lost: std::cell::Cell<bool>,
    /// the wire has handed a FIN to this side
    pub fin_delivered: [std::cell::Cell<bool>; 2],
    pub round: std::cell::Cell<u32>,
    /// tasks the scenario currently keeps asleep (late readers): scenario-imposed waiting, not a stall
    pub sleepers: std::cell::Cell<u32>,
    /// round in which the exhaustion plan started to lose packets
    pub hole_round: std::cell::Cell<Option<u32>>,
    pub spawner: Spawner,
    /// host of each side (own executor only)
    pub hosts: Option<[HostId; 2]>,
    /// address under which `netstat` finds the host of each side (None: host has no address)
    pub stat_ip: Option<[IpAddr; 2]>,
    pub cfg: Cfg,
}

pub(super) const SIDE_NAME: [&str; 2] = ["client", "server"];

impl Shared {
    async fn sleep_rounds(&self, k: u32) {
        self.sleepers.set(self.sleepers.get() + 1);
        if self.hosts.is_some() {
            for _ in 0..k {
                next_round().await
            }
        } else {
            tokio::time::sleep(std::time::Duration::from_millis(k as u64)).await
        }
        self.sleepers.set(self.sleepers.get() - 1);
    }

    /// The reader of `side` is about to issue its first read: which rare situations is it in?
    fn on_first_read(&self, side: usize) {
        let prog = &self.sides[side];
        let mut o = self.obs.borrow_mut();
        if prog.read_delay > 0 || prog.read_after_write {
            o.probes.inc("late_reader_started");
        }
        if self.fin_delivered[side].get() {
            o.probes.inc("first_read_after_peer_fin_was_delivered");
            if o.errors.iter().any(|e| e.0 == side) {
                o.probes.inc("first_read_after_peer_fin_and_own_write_error");
            }
            if let Some(h) = self.hole_round.get() {
                if self.round.get() >= h + self.cfg.budget_rounds() {
                    o.probes.inc("first_read_after_peer_fin_and_exhausted_budget");
                }
            }
        }
    }

    /// Let one round (own executor) resp. one fixture tick pass.
    async fn yield_round(&self) {
        if self.hosts.is_some() {
            next_round().await
        } else {
            // a self-waking task would keep the paused tokio clock from ever advancing
            tokio::time::sleep(std::time::Duration::from_millis(1)).await
        }
    }

    /// (recv_q, send_q) of the connection socket of `side`, from the public netstat snapshot.
    fn sock_q(&self, side: usize) -> Option<(usize, usize)> {
        let ns = netstat(self.stat_ip?[side]);
        for e in ns.entries {
            if e.proto != Proto::Tcp || e.state == Some(NetstatState::Listen) {
                continue;
            }
            let Some(peer) = e.peer else { continue };
            let mine = if side == CLIENT { peer.port() == PORT } else { e.local.port() == PORT };
            if mine {
                return Some((e.recv_q, e.send_q));
            }
        }
        None
    }

    pub(super) fn op_err(&self, side: usize, op: &'static str, e: io::Error) {
        let mut o = self.obs.borrow_mut();
        let kind = e.kind();
        o.log.ev(format!("{} {op} -> Err({kind:?})", SIDE_NAME[side]));
        o.log.tag(op);
        o.log.tag(&format!("err{kind:?}"));
        o.errors.push((side, op, kind));
        o.progress += 1;
        let peer_aborted = o.aborted[1 - side]
            // (TimedOut: the peer's own retransmissions to the vanished end may run out before a reset it accepts arrives)
            && matches!(kind, io::ErrorKind::ConnectionReset | io::ErrorKind::BrokenPipe | io::ErrorKind::ConnectionAborted | io::ErrorKind::NotConnected | io::ErrorKind::TimedOut);
        if peer_aborted {
            o.probes.inc("stream_ended_by_the_peers_abortive_close");
        }
        if o.mode == Mode::Bounded && !peer_aborted {
            o.fail6(
                &format!("Error{kind:?}"),
                format!("{} {op} returned {kind:?} although only a bounded number of packets was lost/delayed", SIDE_NAME[side]),
            );
        }
    }

    pub(super) fn on_connected(&self, side: usize, s: &TcpStream) {
        let mut o = self.obs.borrow_mut();
        o.connected[side] = true;
        o.progress += 1;
        o.log.ev(format!(
            "{} {} local={:?} peer={:?}",
            SIDE_NAME[side],
            if side == CLIENT { "connected" } else { "accepted" },
            s.local_addr().ok(),
            s.peer_addr().ok()
        ));
        o.log.tag(if side == CLIENT { "connected" } else { "accepted" });
    }

    /// Bytes returned by a read (or peek, `consume == false`) of `side`.
    fn on_bytes(&self, side: usize, data: &[u8], consume: bool) {
        let peer = 1 - side;
        let mut o = self.obs.borrow_mut();
        let off = o.read[side];
        let what = if consume { "read" } else { "peek" };
        o.log.ev(format!("{} {what} {} bytes at offset {off}", SIDE_NAME[side], data.len()));
        o.log.tag(what);
        for (i, b) in data.iter().enumerate() {
            let want = pat(peer, off + i as u64);
            if *b != want {
                o.fail6(
                    "Corrupt",
                    format!("{} {what}: byte at stream offset {} is {:#04x}, the peer wrote {:#04x} there", SIDE_NAME[side], off + i as u64, b, want),
                );
                return;
            }
        }
        if off + data.len() as u64 > o.accepted[peer] {
            let acc = o.accepted[peer];
            o.fail6(
                "NotPrefix",
                format!("{} {what} returned bytes up to offset {} but the peer's writes accepted only {acc} bytes so far", SIDE_NAME[side], off + data.len() as u64),
            );
            return;
        }
        if consume {
            o.read[side] += data.len() as u64;
            o.progress += 1;
        }
        drop(o);
        self.first_byte[side].open();
    }

    fn on_eof(&self, side: usize, what: &'static str) {
        let peer = 1 - side;
        let mut o = self.obs.borrow_mut();
        let got = o.read[side];
        o.log.ev(format!("{} {what} -> EOF after {got} bytes", SIDE_NAME[side]));
        o.log.tag("eof");
        if !o.closing[peer] {
            o.fail6("EarlyEof", format!("{} saw end-of-file although the peer has not closed its write side", SIDE_NAME[side]));
        } else if o.read[side] != o.accepted[peer] {
            let (r, a) = (o.read[side], o.accepted[peer]);
            o.fail6("SilentLoss", format!("{} saw end-of-file after {r} bytes but the peer's writes accepted {a} bytes", SIDE_NAME[side]));
        }
        if what == "read" {
            o.eof[side] = true;
            o.progress += 1;
        }
        drop(o);
        self.first_byte[side].open();
    }

    fn on_accepted(&self, side: usize, n: usize) {
        let mut o = self.obs.borrow_mut();
        let total = o.accepted[side] + n as u64;
        o.log.ev(format!("{} write accepted {n} bytes (total {total})", SIDE_NAME[side]));
        o.log.tag("write");
        o.accepted[side] += n as u64;
        if n > 0 {
            o.progress += 1;
        }
    }

    fn mark_closing(&self, side: usize, how: &'static str) {
        let mut o = self.obs.borrow_mut();
        if !o.closing[side] {
            o.closing[side] = true;
            o.log.ev(format!("{} closes its write side ({how})", SIDE_NAME[side]));
            o.log.tag(how);
        }
        o.progress += 1;
    }

    /// C16: one `poll_write` / `try_write` call seen against the send-queue depth right before it.
    fn check_write(&self, side: usize, before: Option<(usize, usize)>, len: usize, res: &Poll<io::Result<usize>>) {
        let Some((_, send_q)) = before else { return };
        let cap = self.cfg.send_cap as usize;
        let free = cap.saturating_sub(send_q);
        let mut o = self.obs.borrow_mut();
        if send_q >= cap {
            o.sendbuf_full_seen = true;
        }
        match res {
            Poll::Pending => {
                o.probes.inc("writer_blocked_on_full_send_buffer");
                if free > 0 {
                    o.fail16("BlockedWithSpace", format!("{} write parked / WouldBlock although send_q={send_q} < send_buf_cap={cap}", SIDE_NAME[side]));
                }
            }
            Poll::Ready(Ok(n)) => {
                if *n > free {
                    o.fail16("WriteBeyondCap", format!("{} write accepted {n} bytes with send_q={send_q}, send_buf_cap={cap}", SIDE_NAME[side]));
                } else if *n == 0 && len > 0 {
                    o.fail16("WriteZero", format!("{} write of {len} bytes returned Ok(0) with send_q={send_q}, send_buf_cap={cap}", SIDE_NAME[side]));
                }
                if *n > 0 && *n == free {
                    o.probes.inc("write_filled_send_buffer_to_cap");
                }
            }
            Poll::Ready(Err(_)) => {}
        }
    }
}

// ------------------------------------------------------------------------------------------------
// application programs (the only stubs: plain async code over the shim types)

/// The loopback side connection of the client host (see `Scenario::lo_side`): set up before the judged
/// connection, so that its sockets come first in the host's socket table.
async fn lo_setup(sh: &Rc<Shared>, lo: LoSide, v6: bool) {
    let ip: IpAddr = if v6 { IpAddr::V6(Ipv6Addr::LOCALHOST) } else { IpAddr::V4(Ipv4Addr::LOCALHOST) };
    let Ok(l) = TcpListener::bind(SocketAddr::new(ip, PORT + 1)).await else { return };
    let (c, a) = tokio::join!(TcpStream::connect(SocketAddr::new(ip, PORT + 1)), l.accept());
    let (Ok(mut c), Ok((mut s, _))) = (c, a) else { return };
    sh.obs.borrow_mut().probes.inc("loopback_side_connection_on_the_client_host");
    let hosts = sh.hosts.expect("own executor");
    let sh2 = sh.clone();
    sh.spawner.spawn(hosts[CLIENT], "c-lo-wr", async move {
        use tokio::io::AsyncWriteExt;
        // (small buffer caps make a loopback transfer slow as well: keep it to a few windows)
        let data = vec![0xa5u8; lo.chunk.min(4 * sh2.cfg.send_cap.min(sh2.cfg.recv_cap)).max(1) as usize];
        for _ in 0..lo.chunks {
            if c.write_all(&data).await.is_err() {
                return;
            }
            for _ in 0..lo.gap {
                sh2.yield_round().await;
            }
        }
        let _ = c.shutdown().await;
    });
    let sh3 = sh.clone();
    sh.spawner.spawn(hosts[CLIENT], "c-lo-rd", async move {
        use tokio::io::AsyncReadExt;
        let mut b = vec![0u8; 4096];
        while let Ok(n) = s.read(&mut b).await {
            if n == 0 {
                break;
            }
            // the side transfer is progress too: the run is not stalled while it moves
            sh3.obs.borrow_mut().progress += 1;
        }
        drop(l);
    });
}

async fn client_main(sh: Rc<Shared>, addr: SocketAddr) {
    if let Some(lo) = sh.lo_side.clone() {
        lo_setup(&sh, lo, addr.is_ipv6()).await;
    }
    match TcpStream::connect(addr).await {
        Ok(s) => {
            sh.on_connected(CLIENT, &s);
            start_halves(&sh, CLIENT, s);
        }
        Err(e) => sh.op_err(CLIENT, "connect", e),
    }
}

async fn server_main(sh: Rc<Shared>, addr: SocketAddr) {
    let l = match TcpListener::bind(addr).await {
        Ok(l) => l,
        Err(e) => {
            sh.obs.borrow_mut().harness_error = Some(format!("server bind {addr} failed: {e}"));
            return;
        }
    };
    match l.accept().await {
        Ok((s, _)) => {
            sh.on_connected(SERVER, &s);
            start_halves(&sh, SERVER, s);
        }
        Err(e) => sh.op_err(SERVER, "accept", e),
    }
}

fn start_halves(sh: &Rc<Shared>, side: usize, s: TcpStream) {
    let (r, w) = s.into_split();
    let names: [(&str, &str); 2] = [("c-rd", "c-wr"), ("s-rd", "s-wr")];
    let hosts = sh.hosts.expect("own executor");
    sh.spawner.spawn(hosts[side], names[side].0, reader(sh.clone(), side, r));
    sh.spawner.spawn(hosts[side], names[side].1, writer(sh.clone(), side, w));
}

async fn read_some(r: &mut OwnedReadHalf, buf: &mut [u8]) -> io::Result<usize> {
    std::future::poll_fn(|cx| {
        let mut rb = ReadBuf::new(buf);
        match Pin::new(&mut *r).poll_read(cx, &mut rb) {
            Poll::Ready(Ok(())) => Poll::Ready(Ok(rb.filled().len())),
            Poll::Ready(Err(e)) => Poll::Ready(Err(e)),
            Poll::Pending => Poll::Pending,
        }
    })
    .await
}

pub(super) async fn reader(sh: Rc<Shared>, side: usize, mut r: OwnedReadHalf) {
    let prog = sh.sides[side].clone();
    if prog.read_after_write {
        sh.writer_done[side].wait().await;
    }
    if prog.read_delay > 0 {
        sh.sleep_rounds(prog.read_delay).await;
    }
    sh.on_first_read(side);
    let mut i = 0usize;
    let peer_total = sh.sides[1 - side].total();
    loop {
        if prog.close == Close::DropAll && sh.obs.borrow().read[side] >= peer_total {
            sh.obs.borrow_mut().probes.inc("reader_stopped_without_waiting_for_eof");
            break;
        }
        if prog.close == Close::Abort && sh.obs.borrow().read[side] >= peer_total / 2 {
            let mut o = sh.obs.borrow_mut();
            if peer_total > 0 {
                o.aborted[side] = true;
                o.probes.inc("reader_stopped_with_inbound_data_outstanding");
            }
            break;
        }
        let sz = prog.reads[i % prog.reads.len()] as usize;
        i += 1;
        if prog.peek > 0 && i % prog.peek as usize == 0 {
            let mut pb = vec![0u8; sz.min(32)];
            match r.peek(&mut pb).await {
                Ok(0) => sh.on_eof(side, "peek"),
                Ok(n) => sh.on_bytes(side, &pb[..n], false),
                Err(e) => {
                    sh.op_err(side, "peek", e);
                    break;
                }
            }
        }
        let mut buf = vec![0u8; sz];
        match read_some(&mut r, &mut buf).await {
            Ok(0) => {
                sh.on_eof(side, "read");
                break;
            }
            Ok(n) => sh.on_bytes(side, &buf[..n], true),
            Err(e) => {
                sh.op_err(side, "read", e);
                break;
            }
        }
    }
    // a writer that waits for the first byte must not wait forever once the reader is gone
    sh.first_byte[side].open();
    if prog.close == Close::AfterEof {
        sh.mark_closing(side, "drop-stream");
    }
    drop(r);
    sh.consumed[side].open();
}

pub(super) async fn writer(sh: Rc<Shared>, side: usize, w: OwnedWriteHalf) {
    writer_body(&sh, side, w).await;
    sh.writer_done[side].open();
}

async fn writer_body(sh: &Rc<Shared>, side: usize, mut w: OwnedWriteHalf) {
    let prog = sh.sides[side].clone();
    if prog.wait_first {
        sh.first_byte[side].wait().await;
    }
    if matches!(prog.close, Close::DropAll | Close::Abort) {
        sh.consumed[side].wait().await;
    }
    let mut off = 0u64;
    for chunk in prog.writes.iter().copied() {
        let data: Vec<u8> = (0..chunk as u64).map(|i| pat(side, off + i)).collect();
        let mut done = 0usize;
        loop {
            let rest = &data[done..];
            let res = if prog.try_write {
                let before = sh.sock_q(side);
                let r = w.try_write(rest);
                let as_poll = match &r {
                    Err(e) if e.kind() == io::ErrorKind::WouldBlock => Poll::Pending,
                    Ok(n) => Poll::Ready(Ok(*n)),
                    Err(e) => Poll::Ready(Err(io::Error::from(e.kind()))),
                };
                sh.check_write(side, before, rest.len(), &as_poll);
                match r {
                    Err(e) if e.kind() == io::ErrorKind::WouldBlock => {
                        sh.obs.borrow_mut().log.tag("wouldblock");
                        sh.yield_round().await;
                        continue;
                    }
                    r => r,
                }
            } else {
                let shc = &sh;
                std::future::poll_fn(|cx| {
                    let before = shc.sock_q(side);
                    let p = Pin::new(&mut w).poll_write(cx, rest);
                    shc.check_write(side, before, rest.len(), &p);
                    p
                })
                .await
            };
            match res {
                Ok(n) => {
                    sh.on_accepted(side, n);
                    done += n;
                    if done >= data.len() {
                        break;
                    }
                    if n == 0 {
                        // Ok(0) for a non-empty buffer: reported by check_write; do not spin
                        sh.yield_round().await;
                    }
                }
                Err(e) => {
                    sh.op_err(side, "write", e);
                    // dropping the half below may still emit a FIN: the peer may see EOF from now on
                    sh.mark_closing(side, "error-drop");
                    return;
                }
            }
        }
        off += chunk as u64;
    }
    match prog.close {
        Close::Shutdown => {
            sh.mark_closing(side, "shutdown");
            if let Err(e) = w.shutdown().await {
                sh.op_err(side, "shutdown", e);
            }
            drop(w);
        }
        Close::DropHalf => {
            sh.mark_closing(side, "drop-write-half");
            drop(w);
        }
        Close::AfterEof => {
            // the stream closes when the reader drops its half (or now, if the reader is gone already)
            sh.mark_closing(side, "drop-stream");
            w.forget();
        }
        Close::DropAll | Close::Abort => {
            // the read half is gone already: this closes the stream with the answer still on its way
            sh.mark_closing(side, "drop-stream-at-once");
            w.forget();
        }
    }
}

pub(super) async fn udp_main(sh: Rc<Shared>, ops: Vec<UdpOp>, peer4: Ipv4Addr, peer6: Ipv6Addr) {
    for (i, op) in ops.iter().enumerate() {
        let bind: SocketAddr = match (op.v6, op.bind_lo) {
            (true, false) => (Ipv6Addr::UNSPECIFIED, 0).into(),
            (false, false) => (Ipv4Addr::UNSPECIFIED, 0).into(),
            (true, true) => (Ipv6Addr::LOCALHOST, 0).into(),
            (false, true) => (Ipv4Addr::LOCALHOST, 0).into(),
        };
        let sock = match UdpSocket::bind(bind).await {
            Ok(s) => s,
            Err(e) => {
                sh.obs.borrow_mut().harness_error = Some(format!("udp bind failed: {e}"));
                return;
            }
        };
        let dst: SocketAddr = match (op.v6, op.lo) {
            (false, true) => (Ipv4Addr::LOCALHOST, 7000).into(),
            (true, true) => (Ipv6Addr::LOCALHOST, 7000).into(),
            (false, false) => (peer4, 7000).into(),
            (true, false) => (peer6, 7000).into(),
        };
        let mtu = if op.lo { sh.cfg.lo_mtu } else { sh.cfg.mtu };
        let limit = mtu.saturating_sub(if op.v6 { IPV6_HDR } else { IPV4_HDR }).saturating_sub(UDP_HDR);
        let payload = vec![0x5au8; op.size as usize];
        let connected = matches!(op.how, UdpHow::ConnSend | UdpHow::ConnTrySend);
        let off_host_from_lo = op.bind_lo && !op.lo;
        if connected {
            if let Err(e) = sock.connect(dst).await {
                if off_host_from_lo {
                    continue; // where the text is silent nothing is judged
                }
                sh.obs.borrow_mut().harness_error = Some(format!("udp connect {dst} failed: {e}"));
                return;
            }
        }
        let (call, r) = match op.how {
            UdpHow::SendTo => ("send_to", sock.send_to(&payload, dst).await),
            UdpHow::TrySendTo => ("try_send_to", sock.try_send_to(&payload, dst)),
            UdpHow::ConnSend => ("connect+send", sock.send(&payload).await),
            UdpHow::ConnTrySend => ("connect+try_send", sock.try_send(&payload)),
        };
        let mut o = sh.obs.borrow_mut();
        o.log.ev(format!("udp#{i} {call} {dst} size={} limit={limit} -> {:?}", op.size, r.as_ref().map_err(|e| e.kind())));
        o.log.tag(call);
        o.log.tag(if r.is_ok() { "udp-ok" } else { "udp-err" });
        let path = if connected { "connected" } else { "unconnected" };
        if off_host_from_lo {
            // a socket bound to the loopback address sending to another host: whatever else happens, a
            // payload the wire's MTU cannot carry must not be accepted
            if r.is_ok() && op.size > limit {
                o.fail16("UdpOversizeSent", format!("{call} from a socket bound to the loopback address to {dst} with payload {} > {limit} (mtu {mtu} of the interface it leaves from) returned Ok", op.size));
            } else if op.size > limit {
                o.probes.inc("udp_oversize_from_loopback_bound_socket_rejected");
            }
            drop(o);
            drop(sock);
            continue;
        }
        match (&r, op.size <= limit) {
            (Ok(n), true) => {
                o.probes.inc(&format!("udp_{path}_send_within_mtu_ok"));
                if *n != op.size as usize {
                    o.fail16("UdpShortSend", format!("{call} of {} bytes (limit {limit}) returned Ok({n})", op.size));
                }
            }
            (Err(_), false) => o.probes.inc(&format!("udp_{path}_oversize_rejected")),
            (Ok(_), false) => o.fail16("UdpOversizeSent", format!("{call} to {dst} with payload {} > {limit} (mtu {mtu}) returned Ok", op.size)),
            (Err(e), true) => o.fail16("UdpRejected", format!("{call} to {dst} with payload {} <= {limit} (mtu {mtu}) failed: {:?}", op.size, e.kind())),
        }
        drop(o);
        drop(sock);
    }
}

// ------------------------------------------------------------------------------------------------
// the driver

#[derive(Clone, Copy, Debug, PartialEq, Eq)]
pub struct Fired {
    pub idx: u32,
    pub dir: u8,
    pub kind: Kind,
    pub act: Act,
}

#[derive(Clone, Copy, Debug)]
pub struct PktRec {
    pub dir: u8,
    pub kind: Kind,
    pub len: u32,
}

pub struct Outcome {
    pub mode: Mode,
    pub v6: Option<Violation>,
    pub v16: Option<Violation>,
    pub log: Log,
    pub faults: Counters,
    pub probes: Counters,
    pub rounds: u32,
    /// every packet that reached the wire, in egress order
    pub packets: Vec<PktRec>,
    /// planned faults that actually fired
    pub fired: Vec<Fired>,
    pub data_segments: u32,
    pub zero_window_seen: bool,
    pub sendbuf_full_seen: bool,
    pub harness_error: Option<String>,
    pub errors: Vec<(usize, &'static str, io::ErrorKind)>,
}

struct Flight {
    info: PktInfo,
    pkt: Packet,
    due: u32,
}

pub(super) const C4: Ipv4Addr = Ipv4Addr::new(10, 0, 0, 1);
pub(super) const S4: Ipv4Addr = Ipv4Addr::new(10, 0, 0, 2);
pub(super) const C6: Ipv6Addr = Ipv6Addr::new(0xfd00, 0, 0, 0, 0, 0, 0, 1);
pub(super) const S6: Ipv6Addr = Ipv6Addr::new(0xfd00, 0, 0, 0, 0, 0, 0, 2);

pub fn run_conn(sc: &Scenario, keep: bool) -> Outcome {
    if sc.via == Via::Fixture {
        return super::fixture::run_fixture(sc, keep);
    }
    let mode = mode_of(sc);
    let mut net = Net::with_config(sc.cfg.kernel());
    let ch = net.add_host(vec![IpAddr::V4(C4), IpAddr::V6(C6)]);
    let (shost, single) = if sc.topo.cross() { (net.add_host(vec![IpAddr::V4(S4), IpAddr::V6(S6)]), false) } else { (ch, true) };
    let guard = net.enter();

    let stat_ip = [IpAddr::V4(C4), if single { IpAddr::V4(C4) } else { IpAddr::V4(S4) }];
    let obs = Obs::new(keep, mode);
    let mut ex = Executor::new();
    let sh = Rc::new(Shared {
        obs: RefCell::new(obs),
        sides: sc.sides.clone(),
        first_byte: [Gate::default(), Gate::default()],
        writer_done: [Gate::default(), Gate::default()],
        consumed: [Gate::default(), Gate::default()],
        lo_side: if sc.topo.cross() { sc.lo_side.clone() } else { None },
        rst_lost: Default::default(),
        fin_delivered: Default::default(),
        round: Default::default(),
        sleepers: Default::default(),
        hole_round: Default::default(),
        spawner: ex.spawner.clone(),
        hosts: Some([ch, shost]),
        stat_ip: Some(stat_ip),
        cfg: sc.cfg.clone(),
    });

    let (bind_ip, dst_ip): (IpAddr, IpAddr) = match sc.topo {
        Topo::CrossV4 => (IpAddr::V4(S4), IpAddr::V4(S4)),
        Topo::CrossV6 => (IpAddr::V6(S6), IpAddr::V6(S6)),
        Topo::LoopV4 => (IpAddr::V4(Ipv4Addr::LOCALHOST), IpAddr::V4(Ipv4Addr::LOCALHOST)),
        Topo::LoopV6 => (IpAddr::V6(Ipv6Addr::LOCALHOST), IpAddr::V6(Ipv6Addr::LOCALHOST)),
        Topo::OwnV4 => (IpAddr::V4(C4), IpAddr::V4(C4)),
    };
    let bind_ip = if sc.bind_wild {
        if sc.topo.v6() {
            IpAddr::V6(Ipv6Addr::UNSPECIFIED)
        } else {
            IpAddr::V4(Ipv4Addr::UNSPECIFIED)
        }
    } else {
        bind_ip
    };
    ex.spawner.spawn(shost, "s-main", server_main(sh.clone(), SocketAddr::new(bind_ip, PORT)));
    ex.spawner.spawn(ch, "c-main", client_main(sh.clone(), SocketAddr::new(dst_ip, PORT)));
    if !sc.udp.is_empty() {
        // in single-host topologies "the other host" does not exist: the datagram is routed nowhere
        ex.spawner.spawn(ch, "u-main", udp_main(sh.clone(), sc.udp.clone(), S4, S6));
    }

    let mut st = Drive {
        wire: Wire::new(vec![IpAddr::V4(C4), IpAddr::V6(C6)], sc.cfg.mtu, sc.cfg.lo_mtu),
        flights: Vec::new(),
        fates: Fates::new(&sc.plan),
        faults: Counters::default(),
        packets: Vec::new(),
        rounds: 0,
        data_segments: 0,
        hole_round: None,
        single,
    };

    let res = core::catch(|| drive(sc, mode, &guard, &mut ex, &sh, &mut st));
    let mut panic_msg = None;
    match res {
        Ok(()) => ex.drop_all(&guard),
        Err(m) => {
            panic_msg = Some(m);
            ex.leak();
        }
    }
    drop(guard);

    let mut o = sh.obs.borrow_mut();
    if let Some(m) = panic_msg {
        let msg = format!("the stack panicked: {m}");
        o.log.ev(format!("!! PANIC {m}"));
        if o.v6.is_none() {
            o.v6 = Some(Violation::new("Panic", msg.clone()));
        }
        if o.v16.is_none() {
            o.v16 = Some(Violation::new("Panic", msg));
        }
    }
    let zero_window_seen = st.wire.dirs[0].zero_window_advertised || st.wire.dirs[1].zero_window_advertised;
    let mut probes = std::mem::take(&mut o.probes);
    if zero_window_seen {
        probes.inc("zero_window_advertised");
    }
    if o.sendbuf_full_seen {
        probes.inc("send_buffer_reached_cap");
    }
    if mode == Mode::Exhaustion && st.hole_round.is_some() {
        for e in o.errors.iter() {
            probes.inc(&format!("exhaustion_surfaced_as_{:?}", e.2));
        }
    }
    Outcome {
        mode,
        v6: o.v6.take(),
        v16: o.v16.take(),
        log: std::mem::take(&mut o.log),
        faults: st.faults,
        probes,
        rounds: st.rounds,
        packets: st.packets,
        fired: st.fates.fired,
        data_segments: st.data_segments,
        zero_window_seen,
        sendbuf_full_seen: o.sendbuf_full_seen,
        harness_error: o.harness_error.take(),
        errors: std::mem::take(&mut o.errors),
    }
}

struct Drive {
    wire: Wire,
    flights: Vec<Flight>,
    fates: Fates,
    faults: Counters,
    packets: Vec<PktRec>,
    rounds: u32,
    data_segments: u32,
    hole_round: Option<u32>,
    single: bool,
}

pub(super) enum Fate {
    Now,
    Hold(u32),
    Drop,
    Hole,
}

/// Which planned faults have fired so far.
pub(super) struct Fates {
    used: Vec<bool>,
    pub fired: Vec<Fired>,
}

impl Fates {
    pub(super) fn new(plan: &Plan) -> Fates {
        Fates { used: vec![false; plan.faults.len()], fired: Vec::new() }
    }
    pub(super) fn decide(&mut self, plan: &Plan, info: &PktInfo, nth: u32) -> Fate {
        match plan.hole {
            Hole::All { from } if info.idx >= from => return Fate::Hole,
            Hole::Dir { from, dir } if info.idx >= from && dir == info.dir => return Fate::Hole,
            _ => {}
        }
        for (i, f) in plan.faults.iter().enumerate() {
            if self.used[i] {
                continue;
            }
            let hit = match f.sel {
                Sel::Idx(n) => n == info.idx,
                Sel::Kind { dir, kind, nth: n } => dir == info.dir && kind == info.kind && n == nth,
            };
            if hit {
                self.used[i] = true;
                self.fired.push(Fired { idx: info.idx, dir: info.dir, kind: info.kind, act: f.act });
                return match f.act {
                    Act::Drop => Fate::Drop,
                    Act::Delay(0) => Fate::Now,
                    Act::Delay(k) => Fate::Hold(k),
                };
            }
        }
        Fate::Now
    }
}

impl Drive {
    /// C16 monitors on a segment leaving a host.
    fn monitor_egress(&mut self, p: &Packet, info: &PktInfo, o: &mut Obs) {
        check_sizes(&self.wire, p, info, o);
        if info.kind == Kind::Data {
            let d = &self.wire.dirs[info.dir as usize];
            if let (Some(_), Some(wnd)) = (d.isn, d.wnd_delivered) {
                let end = info.rel_seq.wrapping_add(info.len);
                if end < 0x4000_0000 && end > d.acked_delivered {
                    let in_flight = end - d.acked_delivered;
                    if in_flight > wnd as u32 {
                        o.fail16(
                            "WindowExceeded",
                            format!(
                                "{} put bytes up to offset {end} on the wire (segment #{}) while the highest acknowledgement delivered to it is {} and the window last delivered to it is {wnd}: {in_flight} bytes in flight",
                                SIDE_NAME[info.dir as usize], info.idx, d.acked_delivered
                            ),
                        );
                    }
                    if in_flight == wnd as u32 {
                        o.probes.inc("sender_filled_peer_window_exactly");
                    }
                }
            }
        }
    }

    /// C16: queue depths of every TCP socket of every host against the configured caps.
    fn monitor_netstat(&mut self, sc: &Scenario, o: &mut Obs, when: &str) {
        let ips: &[IpAddr] = if self.single { &[IpAddr::V4(C4)] } else { &[IpAddr::V4(C4), IpAddr::V4(S4)] };
        check_queues(&sc.cfg, ips, o, when);
    }
}

/// C16: payload sizes of a packet leaving a host against the MTU of the interface it leaves from.
pub(super) fn check_sizes(wire: &Wire, p: &Packet, info: &PktInfo, o: &mut Obs) {
    // (a packet with a loopback source address that heads for another host leaves through the wire interface)
    let mtu = if p.src.is_loopback() && !p.dst.is_loopback() { wire.mtu_of(p.dst) } else { wire.mtu_of(p.src) };
    match &p.payload {
        Transport::Udp(d) => {
            let limit = mtu.saturating_sub(ip_hdr(p.src)).saturating_sub(UDP_HDR);
            if d.payload.len() as u32 > limit {
                o.fail16("UdpWireOversize", format!("UDP datagram with {} payload bytes on the wire, mtu {mtu} allows {limit}", d.payload.len()));
            }
        }
        Transport::Tcp(s) => {
            let mss = mtu.saturating_sub(ip_hdr(p.src)).saturating_sub(TCP_HDR);
            if s.payload.len() as u32 > mss {
                o.fail16("MssExceeded", format!("segment #{} from {} carries {} payload bytes, MSS for mtu {mtu} is {mss}", info.idx, p.src, s.payload.len()));
            }
            if s.payload.len() as u32 == mss {
                o.probes.inc("segment_of_exactly_mss");
            }
        }
    }
}

/// C16: queue depths of the TCP sockets of the hosts behind `ips` against the configured caps.
pub(super) fn check_queues(cfg: &Cfg, ips: &[IpAddr], o: &mut Obs, when: &str) {
    for ip in ips {
        let ns = netstat(*ip);
        for e in ns.entries {
            if e.proto != Proto::Tcp || e.state == Some(NetstatState::Listen) {
                continue;
            }
            if let Some(s) = e.state {
                o.probes.inc(match s {
                    NetstatState::SynSent => "state_SynSent",
                    NetstatState::SynReceived => "state_SynReceived",
                    NetstatState::Established => "state_Established",
                    NetstatState::FinWait1 => "state_FinWait1",
                    NetstatState::FinWait2 => "state_FinWait2",
                    NetstatState::CloseWait => "state_CloseWait",
                    NetstatState::LastAck => "state_LastAck",
                    NetstatState::Closing => "state_Closing",
                    _ => "state_other",
                });
            }
            if e.recv_q > cfg.recv_cap as usize {
                o.fail16("RecvCapExceeded", format!("{when}: socket {} -> {:?} has recv_q={} > recv_buf_cap={}", e.local, e.peer, e.recv_q, cfg.recv_cap));
            }
            if e.send_q > cfg.send_cap as usize {
                o.fail16("SendCapExceeded", format!("{when}: socket {} -> {:?} has send_q={} > send_buf_cap={}", e.local, e.peer, e.send_q, cfg.send_cap));
            }
            if e.recv_q == cfg.recv_cap as usize && e.recv_q > 0 {
                o.probes.inc("recv_queue_at_cap");
            }
            if e.send_q == cfg.send_cap as usize && e.send_q > 0 {
                o.sendbuf_full_seen = true;
            }
        }
    }
}

fn side_of_task(name: &str) -> Option<usize> {
    match name.as_bytes().first() {
        Some(b'c') => Some(CLIENT),
        Some(b's') => Some(SERVER),
        _ => None,
    }
}

fn drive(sc: &Scenario, mode: Mode, guard: &EnterGuard, ex: &mut Executor, sh: &Rc<Shared>, st: &mut Drive) {
    let limit = quiet_limit(&sc.cfg, &sc.plan);
    let mut last_active: u32 = 0;
    let mut last_progress: u64 = 0;
    let mut buf: Vec<Packet> = Vec::with_capacity(64);
    let mut round: u32 = 0;
    let mut drain_left: Option<u32> = None;
    loop {
        st.rounds = round;
        sh.round.set(round);
        let mut active = false;

        // A. applications
        let force = sc.spurious > 0 && round % sc.spurious as u32 == sc.spurious as u32 - 1;
        if drain_left.is_none() {
            let n = ex.poll_phase(guard, sc.poll, round, force);
            if force && n > 0 {
                sh.obs.borrow_mut().probes.inc("spurious_poll_round");
            }
        }
        st.monitor_netstat(sc, &mut sh.obs.borrow_mut(), "after the application ran");

        // B. egress: every new packet gets its fate
        buf.clear();
        guard.egress_all(&mut buf);
        for pkt in buf.drain(..) {
            let info = st.wire.on_egress(&pkt);
            let nth = st.wire.nth_of_kind(&info);
            st.packets.push(PktRec { dir: info.dir, kind: info.kind, len: info.len });
            if info.kind == Kind::Data {
                st.data_segments += 1;
            }
            let mut o = sh.obs.borrow_mut();
            st.monitor_egress(&pkt, &info, &mut o);
            let fate = st.fates.decide(&sc.plan, &info, nth);
            let fate_s = match fate {
                Fate::Now => "deliver".to_string(),
                Fate::Hold(k) => format!("hold {k}"),
                Fate::Drop => "DROP".to_string(),
                Fate::Hole => "drop(blackhole)".to_string(),
            };
            o.log.ev(format!(
                "r{round} #{} {} {} seq={} len={} ack={} wnd={} -> {fate_s}",
                info.idx,
                if info.dir == C2S { "c>s" } else { "s>c" },
                info.kind.name(),
                info.rel_seq as i32,
                info.len,
                if info.has_ack { info.rel_ack as i64 } else { -1 },
                info.window
            ));
            o.log.tag(info.kind.name());
            drop(o);
            match fate {
                Fate::Now => st.flights.push(Flight { info, pkt, due: round }),
                Fate::Hold(k) => {
                    st.faults.inc(&format!("delay_{}", info.kind.name()));
                    sh.obs.borrow_mut().log.tag("held");
                    active = true;
                    st.flights.push(Flight { info, pkt, due: round + k });
                }
                Fate::Drop => {
                    if info.kind == Kind::Rst {
                        sh.rst_lost.set(true);
                    }
                    st.faults.inc(&format!("drop_{}", info.kind.name()));
                    sh.obs.borrow_mut().log.tag("dropped");
                    active = true;
                }
                Fate::Hole => {
                    st.faults.inc("blackhole_drop");
                    if st.hole_round.is_none() {
                        st.hole_round = Some(round);
                        sh.hole_round.set(Some(round));
                        active = true;
                    }
                }
            }
        }

        // C. deliver what is due, in the order the scenario chose
        let mut due: Vec<Flight> = Vec::new();
        let mut rest: Vec<Flight> = Vec::new();
        for f in st.flights.drain(..) {
            if f.due <= round {
                due.push(f)
            } else {
                rest.push(f)
            }
        }
        st.flights = rest;
        if !st.flights.is_empty() {
            active = true;
        }
        due.sort_by_key(|f| f.info.idx);
        let ord = sc.plan.reorder.get(round as usize).copied().unwrap_or(Order::Fifo);
        if ord != Order::Fifo {
            active = true;
            if due.len() >= 2 {
                ord.apply(&mut due);
                st.faults.inc("reordered_round");
                sh.obs.borrow_mut().log.tag("reorder");
            }
        }
        if due.windows(2).any(|w| w[0].info.idx > w[1].info.idx && w[0].info.dir == w[1].info.dir) {
            sh.obs.borrow_mut().probes.inc("segment_overtook_in_same_direction");
        }
        for f in due {
            st.wire.on_deliver(&f.pkt, &f.info);
            if f.info.kind == Kind::Fin {
                sh.fin_delivered[1 - f.info.dir as usize].set(true);
            }
            sh.obs.borrow_mut().log.ev(format!("r{round} deliver #{}", f.info.idx));
            guard.deliver(f.pkt);
        }
        st.monitor_netstat(sc, &mut sh.obs.borrow_mut(), "after delivery");

        // D. verdict bookkeeping
        if sh.sleepers.get() > 0 {
            active = true;
        }
        {
            let o = sh.obs.borrow();
            if o.progress != last_progress {
                active = true;
            }
            last_progress = o.progress;
            if o.v6.is_some() || o.harness_error.is_some() {
                return;
            }
        }
        if active {
            last_active = round;
        }
        if let Some(left) = drain_left.as_mut() {
            // all applications are done: let the close handshakes play out under the monitors
            if *left == 0 || (st.flights.is_empty() && round > last_active + 1) {
                return;
            }
            *left -= 1;
        } else if ex.live() == 0 {
            drain_left = Some(sc.cfg.budget_rounds() + 4);
        } else if round - last_active > limit {
            let pending = ex.pending_names();
            let mut o = sh.obs.borrow_mut();
            let detail = format!(
                "pending tasks {:?}; client read {}/{} wrote {}/{}; server read {}/{} wrote {}/{}; wire: c acked {} of {} emitted, s acked {} of {} emitted",
                pending,
                o.read[0],
                sc.sides[1].total(),
                o.accepted[0],
                sc.sides[0].total(),
                o.read[1],
                sc.sides[0].total(),
                o.accepted[1],
                sc.sides[1].total(),
                st.wire.dirs[0].acked_delivered,
                st.wire.dirs[0].max_end_emitted,
                st.wire.dirs[1].acked_delivered,
                st.wire.dirs[1].max_end_emitted
            );
            match mode {
                // an abortive close is announced by a single RST that nothing repeats: when the plan loses it, the
                // peer cannot learn of the close (as with any TCP), and its waiting is not judged
                Mode::Bounded if (o.aborted[0] || o.aborted[1]) && st.faults.get("drop_RST") > 0 => {
                    o.probes.inc("abortive_close_with_its_rst_lost_not_judged");
                }
                Mode::Bounded => {
                    o.fail6("Stall", format!("no application progress for {limit} rounds after the last fault (round {last_active}) with obligations outstanding: {detail}"));
                }
                Mode::Exhaustion => {
                    // who still owes the peer an acknowledged byte (or SYN / FIN)?
                    for side in 0..2 {
                        let d = &st.wire.dirs[side];
                        let owed = if !o.connected[side] {
                            side == CLIENT && d.isn.is_some()
                        } else {
                            (d.acked_delivered as u64) < o.accepted[side] + d.fin_emitted as u64
                        };
                        let stuck: Vec<&str> = pending.iter().copied().filter(|n| side_of_task(n) == Some(side)).collect();
                        if owed && !stuck.is_empty() {
                            o.fail6(
                                "Hang",
                                format!("{} has unacknowledged data on a dead path (retransmit budget {} rounds) but its operations never fail: still pending {:?}; {detail}", SIDE_NAME[side], sc.cfg.budget_rounds(), stuck),
                            );
                        }
                        if !owed && !stuck.is_empty() {
                            o.probes.inc("exhaustion_side_without_obligation_not_judged");
                        }
                    }
                }
                Mode::SafetyOnly => {
                    o.probes.inc("safety_only_run_ended_stalled");
                }
            }
            return;
        }
        round += 1;
        if round > 200_000 {
            sh.obs.borrow_mut().harness_error = Some("round cap of 200000 hit".into());
            return;
        }
    }
}
