//! The wire: packet classification, per-direction connection tracking (what was emitted, what the
//! wire has delivered to whom) and the fault plan. Everything here is computed from packets seen
//! between `egress_all` and `deliver` — public data of `turmoil_net::Packet`.

use serde::{Deserialize, Serialize};
use std::net::IpAddr;
use turmoil_net::{Packet, Transport};

pub const C2S: u8 = 0;
pub const S2C: u8 = 1;

pub const IPV4_HDR: u32 = 20;
pub const IPV6_HDR: u32 = 40;
pub const TCP_HDR: u32 = 20;
pub const UDP_HDR: u32 = 8;

#[derive(Clone, Copy, Debug, PartialEq, Eq, PartialOrd, Ord, Serialize, Deserialize)]
pub enum Kind {
    Syn,
    SynAck,
    /// pure ACK of the client that completes the handshake (nothing sent or received yet)
    HsAck,
    Data,
    /// pure ACK (acknowledges new data or repeats the last acknowledgement with the same window)
    Ack,
    /// pure ACK that repeats the last acknowledgement number with a different window
    WinUpd,
    Fin,
    Rst,
    Udp,
}

impl Kind {
    pub fn name(self) -> &'static str {
        match self {
            Kind::Syn => "SYN",
            Kind::SynAck => "SYNACK",
            Kind::HsAck => "HSACK",
            Kind::Data => "DATA",
            Kind::Ack => "ACK",
            Kind::WinUpd => "WINUPD",
            Kind::Fin => "FIN",
            Kind::Rst => "RST",
            Kind::Udp => "UDP",
        }
    }
    pub const ALL: [Kind; 9] = [Kind::Syn, Kind::SynAck, Kind::HsAck, Kind::Data, Kind::Ack, Kind::WinUpd, Kind::Fin, Kind::Rst, Kind::Udp];
    pub fn is_pure_ack(self) -> bool {
        matches!(self, Kind::Ack | Kind::WinUpd | Kind::HsAck)
    }
}

// ------------------------------------------------------------------------------------------------
// fault plan

#[derive(Clone, Copy, Debug, PartialEq, Eq, Serialize, Deserialize)]
pub enum Act {
    Drop,
    /// keep in flight for this many extra egress rounds
    Delay(u32),
}

#[derive(Clone, Copy, Debug, PartialEq, Eq, Serialize, Deserialize)]
pub enum Sel {
    /// the n-th packet that leaves any host (0-based, counted over the whole run)
    Idx(u32),
    /// the n-th packet (0-based) of this kind in this direction
    Kind { dir: u8, kind: Kind, nth: u32 },
}

#[derive(Clone, Copy, Debug, PartialEq, Eq, Serialize, Deserialize)]
pub struct Fault {
    pub sel: Sel,
    pub act: Act,
}

/// Exhaustion mode: from packet index `from` on, everything (or everything in one direction) is lost.
#[derive(Clone, Copy, Debug, PartialEq, Eq, Serialize, Deserialize)]
pub enum Hole {
    None,
    All { from: u32 },
    Dir { from: u32, dir: u8 },
}

/// Relative order in which the packets due in one round are handed to `deliver`.
#[derive(Clone, Copy, Debug, PartialEq, Eq, Serialize, Deserialize)]
pub enum Order {
    Fifo,
    Rev,
    /// swap neighbours pairwise
    Swap,
    /// first packet goes last
    Rot,
}

impl Order {
    pub fn apply<T>(self, v: &mut [T]) {
        match self {
            Order::Fifo => {}
            Order::Rev => v.reverse(),
            Order::Swap => {
                let mut i = 0;
                while i + 1 < v.len() {
                    v.swap(i, i + 1);
                    i += 2;
                }
            }
            Order::Rot => {
                if v.len() > 1 {
                    v.rotate_left(1)
                }
            }
        }
    }
}

#[derive(Clone, Debug, PartialEq, Eq, Serialize, Deserialize)]
pub struct Plan {
    pub faults: Vec<Fault>,
    pub hole: Hole,
    /// delivery order of the due packets in round i (rounds beyond the list: FIFO)
    pub reorder: Vec<Order>,
}

impl Plan {
    pub fn none() -> Plan {
        Plan { faults: Vec::new(), hole: Hole::None, reorder: Vec::new() }
    }
    pub fn is_empty(&self) -> bool {
        self.faults.is_empty() && self.hole == Hole::None && self.reorder.iter().all(|o| *o == Order::Fifo)
    }
    pub fn drops(&self) -> u32 {
        self.faults.iter().filter(|f| f.act == Act::Drop).count() as u32
    }
    pub fn max_delay(&self) -> u32 {
        self.faults.iter().map(|f| if let Act::Delay(k) = f.act { k } else { 0 }).max().unwrap_or(0)
    }
    pub fn reorders(&self) -> u32 {
        self.reorder.iter().filter(|o| **o != Order::Fifo).count() as u32
    }
}

// ------------------------------------------------------------------------------------------------
// connection tracking on the wire

#[derive(Clone, Copy, Debug)]
pub struct PktInfo {
    pub idx: u32,
    pub dir: u8,
    pub kind: Kind,
    pub len: u32,
    /// payload offset relative to the first data byte of this direction (TCP data/FIN only)
    pub rel_seq: u32,
    /// acknowledged offset of the opposite direction's byte stream (valid when `has_ack`)
    pub rel_ack: u32,
    pub has_ack: bool,
    pub window: u16,
}

#[derive(Default, Clone, Debug)]
pub struct DirState {
    /// initial sequence number this side announced (SYN resp. SYN-ACK)
    pub isn: Option<u32>,
    /// last (ack, window) this side emitted in a pure ACK or data segment
    pub last_emit_ack: Option<(u32, u16)>,
    /// highest payload end (relative) this side has put on the wire
    pub max_end_emitted: u32,
    pub fin_emitted: bool,
    /// highest acknowledgement (relative to this side's own byte stream) the wire delivered TO this side
    pub acked_delivered: u32,
    /// window field of the last ACK-bearing (or SYN) segment the wire delivered TO this side
    pub wnd_delivered: Option<u16>,
    /// a SYN-ACK (client) resp. any ACK-bearing segment (server) was delivered to this side
    pub handshake_answer_delivered: bool,
    pub kind_count: [u32; 9],
    pub zero_window_advertised: bool,
}

pub struct Wire {
    pub client_ips: Vec<IpAddr>,
    pub dirs: [DirState; 2],
    pub next_idx: u32,
    pub mtu: u32,
    pub lo_mtu: u32,
}

fn kind_slot(k: Kind) -> usize {
    Kind::ALL.iter().position(|x| *x == k).unwrap()
}

pub fn ip_hdr(ip: IpAddr) -> u32 {
    match ip {
        IpAddr::V4(_) => IPV4_HDR,
        IpAddr::V6(_) => IPV6_HDR,
    }
}

impl Wire {
    pub fn new(client_ips: Vec<IpAddr>, mtu: u32, lo_mtu: u32) -> Wire {
        Wire { client_ips, dirs: [DirState::default(), DirState::default()], next_idx: 0, mtu, lo_mtu }
    }

    pub fn dir_of(&self, p: &Packet) -> u8 {
        if self.client_ips.contains(&p.src) {
            C2S
        } else {
            S2C
        }
    }

    /// MTU of the interface a packet with this source address leaves from.
    pub fn mtu_of(&self, src: IpAddr) -> u32 {
        if src.is_loopback() {
            self.lo_mtu
        } else {
            self.mtu
        }
    }

    /// Classify a freshly egressed packet and update the emission side of the tracker.
    pub fn on_egress(&mut self, p: &Packet) -> PktInfo {
        let idx = self.next_idx;
        self.next_idx += 1;
        let dir = self.dir_of(p);
        let mut info = PktInfo { idx, dir, kind: Kind::Udp, len: 0, rel_seq: 0, rel_ack: 0, has_ack: false, window: 0 };
        let s = match &p.payload {
            Transport::Udp(d) => {
                info.len = d.payload.len() as u32;
                self.dirs[dir as usize].kind_count[kind_slot(Kind::Udp)] += 1;
                return info;
            }
            Transport::Tcp(s) => s,
        };
        let (me, peer) = (dir as usize, 1 - dir as usize);
        info.len = s.payload.len() as u32;
        info.window = s.window;
        info.has_ack = s.flags.ack;
        if s.flags.syn && self.dirs[me].isn.is_none() {
            self.dirs[me].isn = Some(s.seq);
        }
        if let Some(isn) = self.dirs[me].isn {
            info.rel_seq = s.seq.wrapping_sub(isn.wrapping_add(1));
        }
        if s.flags.ack {
            if let Some(pisn) = self.dirs[peer].isn {
                info.rel_ack = s.ack.wrapping_sub(pisn.wrapping_add(1));
            }
        }
        let kind = if s.flags.rst {
            Kind::Rst
        } else if s.flags.syn && s.flags.ack {
            Kind::SynAck
        } else if s.flags.syn {
            Kind::Syn
        } else if s.flags.fin {
            Kind::Fin
        } else if !s.payload.is_empty() {
            Kind::Data
        } else if dir == C2S && info.rel_seq == 0 && info.rel_ack == 0 && self.dirs[me].max_end_emitted == 0 && !self.dirs[me].fin_emitted {
            Kind::HsAck
        } else {
            match self.dirs[me].last_emit_ack {
                Some((a, w)) if a == s.ack && w != s.window => Kind::WinUpd,
                _ => Kind::Ack,
            }
        };
        info.kind = kind;
        let d = &mut self.dirs[me];
        if s.flags.ack && !s.flags.rst {
            d.last_emit_ack = Some((s.ack, s.window));
            if s.window == 0 && !s.flags.syn {
                d.zero_window_advertised = true;
            }
        }
        if kind == Kind::Data {
            let end = info.rel_seq.wrapping_add(info.len);
            if end > d.max_end_emitted && end < 0x4000_0000 {
                d.max_end_emitted = end;
            }
        }
        if kind == Kind::Fin {
            d.fin_emitted = true;
        }
        d.kind_count[kind_slot(kind)] += 1;
        info
    }

    /// n-th (0-based) packet of its (direction, kind): call right after `on_egress`.
    pub fn nth_of_kind(&self, info: &PktInfo) -> u32 {
        self.dirs[info.dir as usize].kind_count[kind_slot(info.kind)] - 1
    }

    /// The wire hands `p` to its destination host: record what that side now knows.
    pub fn on_deliver(&mut self, p: &Packet, info: &PktInfo) {
        let Transport::Tcp(s) = &p.payload else { return };
        if s.flags.rst {
            return;
        }
        let rcv = 1 - info.dir as usize;
        let d = &mut self.dirs[rcv];
        if s.flags.ack {
            // cumulative: only forward moves count (wrapping compare on small relative numbers)
            if info.rel_ack > d.acked_delivered && info.rel_ack < 0x4000_0000 {
                d.acked_delivered = info.rel_ack;
            }
            d.wnd_delivered = Some(s.window);
            d.handshake_answer_delivered = true;
        } else if s.flags.syn {
            d.wnd_delivered = Some(s.window);
        }
    }
}
