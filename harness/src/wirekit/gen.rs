//! Scenario generation, systematic fault placement, shrinking and the guards / matchers of the
//! known defects — shared by C06 and C16 (which differ in spread and in the verdict they read).

use super::conn::*;
use super::exec::PollOrder;
use super::wire::*;
use crate::core::prng::Rng;
use crate::core::Tier;
use std::sync::OnceLock;

// ------------------------------------------------------------------------------------------------
// known defects of turmoil-net's TCP (DESIGN section 2, O7) as predicates

pub const KF_LOST_ACK: &str = "lost-ack-not-repaired";
pub const KF_ZERO_WINDOW: &str = "zero-window-stall";
pub const KF_LOST_HSACK: &str = "lost-handshake-ack";
pub const KF_HS_BUDGET: &str = "handshake-retransmits-charged-to-data";
pub const KF_HS_DATA: &str = "data-on-handshake-completing-segment-discarded";
pub const KF_NO_TIMEWAIT: &str = "reset-after-close-destroys-unread-data";
pub const KF_ZW_REFUSED: &str = "refused-data-charged-to-retransmit-budget";
pub const ALL_KF: &[&str] = &[KF_NO_TIMEWAIT, KF_ZW_REFUSED, KF_LOST_HSACK, KF_ZERO_WINDOW, KF_LOST_ACK, KF_HS_DATA, KF_HS_BUDGET];

/// Which of the known defects the tree under test still has, decided once per process by running
/// the three minimal trigger scenarios (the proposed repairs make all three pass).
#[derive(Clone, Copy, Debug, Default)]
pub struct Defects {
    pub lost_ack: bool,
    pub zero_window: bool,
    pub lost_hsack: bool,
    pub hs_budget: bool,
    pub hs_data: bool,
    pub no_timewait: bool,
    pub zw_refused: bool,
}

impl Defects {
    pub fn any(&self) -> bool {
        self.lost_ack || self.zero_window || self.lost_hsack || self.hs_budget || self.hs_data || self.no_timewait || self.zw_refused
    }
}

fn plain_side(total: u32, read: u32, close: Close) -> Side {
    Side { writes: if total > 0 { vec![total] } else { vec![] }, try_write: false, reads: vec![read], peek: 0, close, wait_first: false, read_delay: 0, read_after_write: false }
}

fn base_cfg() -> Cfg {
    Cfg { mtu: 1500, lo_mtu: 65536, send_cap: 65536, recv_cap: 65536, retx_threshold: 3, retx_max: 5 }
}

fn base_scenario(sides: [Side; 2], cfg: Cfg, plan: Plan) -> Scenario {
    Scenario { guarded: false, via: Via::Wire, cfg, topo: Topo::CrossV4, bind_wild: false, sides, plan, poll: PollOrder::Fwd, spurious: 0, udp: vec![], lo_side: None }
}

/// (a) the only acknowledgement of a data segment is lost (the receiver has nothing to send, the
/// sender is blocked on its full send buffer).
pub fn canary_lost_ack() -> Scenario {
    let mut cfg = base_cfg();
    cfg.send_cap = 10;
    base_scenario(
        [plain_side(20, 64, Close::Shutdown), plain_side(0, 64, Close::AfterEof)],
        cfg,
        Plan { faults: vec![Fault { sel: Sel::Kind { dir: S2C, kind: Kind::Ack, nth: 0 }, act: Act::Drop }], hole: Hole::None, reorder: vec![] },
    )
}

/// (b) receive buffer fills, reader drains it in reads smaller than half the buffer.
pub fn canary_zero_window() -> Scenario {
    let mut cfg = base_cfg();
    cfg.recv_cap = 16;
    base_scenario([plain_side(80, 64, Close::Shutdown), plain_side(0, 3, Close::AfterEof)], cfg, Plan::none())
}

/// (c) the handshake ACK is lost and the client has nothing to say before the server speaks.
pub fn canary_lost_hsack() -> Scenario {
    let mut c = plain_side(4, 64, Close::Shutdown);
    c.wait_first = true;
    base_scenario(
        [c, plain_side(4, 64, Close::Shutdown)],
        base_cfg(),
        Plan { faults: vec![Fault { sel: Sel::Kind { dir: C2S, kind: Kind::HsAck, nth: 0 }, act: Act::Drop }], hole: Hole::None, reorder: vec![] },
    )
}

/// (d) retransmit counters are not reset when the handshake completes: a SYN-ACK that was
/// retransmitted while its ACK was merely slow leaves the first data segment without budget.
pub fn canary_hs_budget() -> Scenario {
    let mut cfg = base_cfg();
    cfg.retx_threshold = 3;
    cfg.retx_max = 1;
    let d = |dir: u8, kind: Kind| Fault { sel: Sel::Kind { dir, kind, nth: 0 }, act: Act::Delay(1) };
    base_scenario(
        [plain_side(0, 64, Close::AfterEof), plain_side(10, 64, Close::Shutdown)],
        cfg,
        Plan { faults: vec![d(S2C, Kind::SynAck), d(C2S, Kind::HsAck), d(S2C, Kind::Data)], hole: Hole::None, reorder: vec![] },
    )
}

/// (e) the client's first data segment overtakes its handshake ACK: it completes the handshake on
/// the server, but its payload is thrown away and has to be retransmitted — with `retx_max = 1`
/// that was the only retransmission, and a slow round trip then aborts the connection.
pub fn canary_hs_data() -> Scenario {
    let mut cfg = base_cfg();
    cfg.retx_threshold = 4;
    cfg.retx_max = 1;
    let d = |dir: u8, kind: Kind, nth: u32| Fault { sel: Sel::Kind { dir, kind, nth }, act: Act::Delay(2) };
    let mut srv = plain_side(0, 64, Close::Shutdown);
    srv.wait_first = true;
    base_scenario(
        [plain_side(1, 64, Close::AfterEof), srv],
        cfg,
        Plan { faults: vec![d(C2S, Kind::HsAck, 0), d(C2S, Kind::Data, 1), d(S2C, Kind::Ack, 0)], hole: Hole::None, reorder: vec![] },
    )
}

/// (f) no TIME-WAIT: the side that closed first forgets the connection at once and answers a late
/// (delayed) or retransmitted (its last ACK was lost) segment with RST; the RST aborts the peer and
/// flushes data and FIN the peer had received but not read yet. Two canaries: a pure ACK that is one
/// round late, and a lost ACK of the FIN.
pub fn canary_no_timewait(drop_variant: bool) -> Scenario {
    let mut srv = plain_side(0, 64, Close::Shutdown);
    srv.writes = vec![0];
    srv.read_delay = if drop_variant { 14 } else { 3 };
    let fault = if drop_variant {
        Fault { sel: Sel::Kind { dir: C2S, kind: Kind::Ack, nth: 0 }, act: Act::Drop }
    } else {
        Fault { sel: Sel::Idx(5), act: Act::Delay(1) }
    };
    base_scenario([plain_side(1, 64, Close::Shutdown), srv], base_cfg(), Plan { faults: vec![fault], hole: Hole::None, reorder: vec![] })
}

/// (g) with `retx_max = 1`, data sent into a window that an overtaken (stale) ACK seemed to re-open
/// is refused by the full receiver and answered with "window 0" — and that answer does not count
/// as a sign of life: the one retransmission is used up and the connection is aborted.
pub fn canary_zw_refused() -> Scenario {
    serde_json::from_str(r#"{"guarded": false, "via": "Wire", "cfg": {"mtu": 58, "lo_mtu": 1237, "send_cap": 256, "recv_cap": 100, "retx_threshold": 3, "retx_max": 1}, "topo": "CrossV4", "bind_wild": true, "sides": [{"writes": [507], "try_write": false, "reads": [1190, 4096], "peek": 2, "close": "Shutdown", "wait_first": false, "read_delay": 0, "read_after_write": false}, {"writes": [0], "try_write": true, "reads": [25, 4096], "peek": 0, "close": "DropHalf", "wait_first": false, "read_delay": 10, "read_after_write": true}], "plan": {"faults": [{"sel": {"Idx": 19}, "act": {"Delay": 1}}], "hole": "None", "reorder": []}, "poll": "Rot", "spurious": 0, "udp": []}"#).expect("canary scenario parses")
}

pub fn defects() -> Defects {
    static D: OnceLock<Defects> = OnceLock::new();
    *D.get_or_init(|| Defects {
        lost_ack: run_conn(&canary_lost_ack(), false).v6.is_some(),
        zero_window: run_conn(&canary_zero_window(), false).v6.is_some(),
        lost_hsack: run_conn(&canary_lost_hsack(), false).v6.is_some(),
        hs_budget: run_conn(&canary_hs_budget(), false).v6.is_some(),
        hs_data: run_conn(&canary_hs_data(), false).v6.is_some(),
        no_timewait: run_conn(&canary_no_timewait(false), false).v6.is_some() || run_conn(&canary_no_timewait(true), false).v6.is_some(),
        zw_refused: run_conn(&canary_zw_refused(), false).v6.is_some(),
    })
}

/// Static trigger of (b): a receive window can reach zero and the reader may then drain less than
/// half the buffer per read, or a window update may be lost.
pub fn trigger_zero_window(sc: &Scenario) -> bool {
    for rx in 0..2 {
        let tx = 1 - rx;
        // the FIN needs one unit of window too
        let fits = sc.sides[tx].total() < sc.cfg.recv_cap as u64;
        if fits {
            continue;
        }
        if sc.sides[rx].min_read() < (sc.cfg.recv_cap / 2).max(1) {
            return true;
        }
        // the window does reach zero: every window update matters, and so does every ACK that
        // carries the re-opened window
        if sc.plan.faults.iter().any(|f| f.act == Act::Drop) || sc.plan.reorders() > 0 || sc.plan.max_delay() > 0 || sc.plan.hole != Hole::None {
            return true;
        }
    }
    false
}

/// Static trigger of (d): the retransmit attempts a slow handshake used up are charged to the
/// first data segment, so delays can exhaust a small budget without any loss.
pub fn trigger_hs_budget(sc: &Scenario) -> bool {
    let delays = sc.plan.faults.iter().filter(|f| matches!(f.act, Act::Delay(_))).count();
    match sc.cfg.retx_max {
        0..=2 => delays >= 1,
        _ => delays >= 2,
    }
}

/// Static trigger of (e): with a single retransmission per segment, a handshake ACK that is late
/// or overtaken costs that retransmission before anything was lost.
pub fn trigger_hs_data(sc: &Scenario) -> bool {
    sc.cfg.retx_max == 1 && (sc.plan.max_delay() > 0 || sc.plan.reorders() > 0)
}

pub fn late_reader(sc: &Scenario) -> bool {
    sc.sides.iter().any(|s| s.read_delay > 0 || s.read_after_write)
}

/// Static trigger of (f): somebody reads late, and the plan disturbs the wire at all.
pub fn trigger_no_timewait(sc: &Scenario) -> bool {
    late_reader(sc) && (!sc.plan.faults.is_empty() || sc.plan.reorders() > 0)
}

/// Static trigger of (g).
pub fn trigger_zw_refused(sc: &Scenario) -> bool {
    sc.cfg.retx_max == 1 && late_reader(sc) && (sc.plan.max_delay() > 0 || sc.plan.reorders() > 0)
}

/// Dynamic triggers of (a) and (c): which kinds of packets did the plan actually drop?
pub fn dropped_kinds(fired: &[Fired]) -> Vec<Kind> {
    let mut v: Vec<Kind> = fired.iter().filter(|f| f.act == Act::Drop).map(|f| f.kind).collect();
    v.sort();
    v.dedup();
    v
}

/// Name of the known defect a (minimised) failing scenario falls under, if any. Deliberately
/// narrow: (c) a dropped handshake ACK and no fault outside the handshake; (b) the static
/// zero-window trigger holds, a zero window was really advertised, and the run either waits without
/// end or lost nothing but window information; (a) the plan dropped at least one pure acknowledgement (ACK /
/// window update / handshake ACK) or FIN (whose retransmission is likewise never re-ACKed);
/// (e), (d) no drop at all, a small retransmit budget and a delayed packet.
pub fn classify_known(sc: &Scenario, out: &Outcome, class: &str) -> Option<&'static str> {
    // an abort that nobody observes locally shows up at the peer as a reset or as a wait without end
    let liveness = matches!(class, "Stall" | "Hang" | "ErrorTimedOut" | "ErrorConnectionReset");
    if !liveness {
        return None;
    }
    let dk = dropped_kinds(&out.fired);
    if class == "ErrorConnectionReset" && trigger_no_timewait(sc) && (!out.fired.is_empty() || sc.plan.reorders() > 0) {
        return Some(KF_NO_TIMEWAIT);
    }
    if class == "ErrorTimedOut" && dk.is_empty() && trigger_zw_refused(sc) && out.zero_window_seen {
        return Some(KF_ZW_REFUSED);
    }
    let handshake_only = out.fired.iter().all(|f| matches!(f.kind, Kind::Syn | Kind::SynAck | Kind::HsAck));
    if dk.contains(&Kind::HsAck) && handshake_only {
        return Some(KF_LOST_HSACK);
    }
    if trigger_zero_window(sc) && (out.zero_window_seen || !sc.topo.cross()) {
        // a wait without end at a closed window is the defect itself, whatever else was lost on the
        // way there; an abort is attributed to it only if nothing but window information was lost
        if matches!(class, "Stall" | "Hang") || dk.iter().all(|k| matches!(k, Kind::WinUpd | Kind::Ack)) {
            return Some(KF_ZERO_WINDOW);
        }
    }
    // any lost acknowledgement can be the one whose information no later segment repeats; other
    // drops of the same (bounded) plan only shorten the time to the abort
    if dk.iter().any(|k| matches!(k, Kind::Ack | Kind::WinUpd | Kind::HsAck | Kind::Fin)) {
        return Some(KF_LOST_ACK);
    }
    if dk.is_empty() && trigger_hs_data(sc) && out.fired.iter().any(|f| f.kind == Kind::HsAck) {
        return Some(KF_HS_DATA);
    }
    if dk.is_empty() && trigger_hs_budget(sc) && out.fired.iter().any(|f| matches!(f.act, Act::Delay(_))) {
        return Some(KF_HS_BUDGET);
    }
    None
}

// ------------------------------------------------------------------------------------------------
// generation

pub struct Spread {
    /// C16: the widest KernelConfig spread, try_write writers, UDP probes
    pub wide: bool,
}

const CAPS: [u32; 16] = [1, 2, 3, 5, 8, 13, 16, 31, 64, 100, 128, 256, 512, 1024, 4096, 65536];

fn gen_cfg(rng: &mut Rng, topo: Topo, wide: bool, avoid_small_caps: bool) -> Cfg {
    let hdr = topo.ip_hdr() + TCP_HDR;
    let mss = match rng.weighted(&[3, 3, 3, 2, 2]) {
        0 => rng.range(1, 4) as u32,
        1 => rng.range(5, 64) as u32,
        2 => rng.range(65, 600) as u32,
        3 => 1460,
        _ => rng.range(600, 1460) as u32,
    };
    // the other interface gets an unrelated MTU so that mixing them up shows
    let other = hdr + 20 + rng.range(1, 3000) as u32;
    let (mtu, lo_mtu) = if matches!(topo, Topo::LoopV4 | Topo::LoopV6) { (other, hdr + mss) } else { (hdr + mss, if rng.bool() { 65536 } else { other }) };
    let cap = |rng: &mut Rng| -> u32 {
        if avoid_small_caps {
            *rng.pick(&[4096u32, 65536])
        } else if wide || rng.chance(2, 3) {
            *rng.pick(&CAPS)
        } else {
            *rng.pick(&[1024u32, 4096, 65536])
        }
    };
    let send_cap = cap(rng);
    let recv_cap = if rng.chance(1, 3) { send_cap } else { cap(rng) };
    Cfg { mtu, lo_mtu, send_cap, recv_cap, retx_threshold: rng.range(2, 4) as u32, retx_max: rng.range(1, 6) as u32 }
}

fn gen_side(rng: &mut Rng, total: u32, wide: bool) -> Side {
    let mut writes = Vec::new();
    if total > 0 {
        let n = rng.range(1, 5) as u32;
        let mut left = total;
        for i in 0..n {
            if i == n - 1 {
                writes.push(left);
            } else {
                let w = match rng.below(4) {
                    0 => 1.min(left),
                    1 => 0,
                    _ => rng.range(0, left as u64) as u32,
                };
                writes.push(w);
                left -= w;
            }
        }
    } else if rng.chance(1, 4) {
        writes.push(0);
    }
    let nreads = rng.range(1, 3);
    let reads = (0..nreads)
        .map(|_| match rng.below(6) {
            0 => 1,
            1 => rng.range(2, 7) as u32,
            2 => rng.range(8, 64) as u32,
            3 => rng.range(65, 1500) as u32,
            4 => total.max(1) + rng.range(1, 100) as u32,
            _ => 4096,
        })
        .collect();
    Side {
        writes,
        try_write: rng.chance(if wide { 1 } else { 1 }, if wide { 3 } else { 8 }),
        reads,
        peek: if rng.chance(1, 4) { rng.range(1, 3) as u8 } else { 0 },
        close: *rng.pick(&[Close::Shutdown, Close::Shutdown, Close::Shutdown, Close::DropHalf, Close::DropHalf, Close::AfterEof, Close::AfterEof, Close::DropAll, Close::DropAll, Close::Abort]),
        wait_first: false,
        read_delay: 0,
        read_after_write: false,
    }
}

/// Transfer size such that the run stays within a few hundred segments.
fn gen_total(rng: &mut Rng, unit: u32) -> u32 {
    let max_units = 120u64;
    let hi = (unit as u64 * max_units).min(2048);
    match rng.below(8) {
        0 => 0,
        1 => 1,
        2 => rng.range(1, hi.min(16)) as u32,
        _ => rng.range(1, hi) as u32,
    }
}

/// Seeded random multi-fault plan inside the premise of the liveness clause.
pub fn gen_bounded_plan(rng: &mut Rng, cfg: &Cfg, npkts_hint: u32, avoid: &Defects) -> Plan {
    let mut plan = Plan::none();
    let max_d = cfg.retx_max - 1;
    let drops = if max_d == 0 { 0 } else { rng.range(0, max_d.min(3) as u64) as u32 };
    let dmax = max_bounded_delay(cfg, drops);
    let delays = if dmax == 0 { 0 } else { rng.range(0, 4) as u32 };
    let span = npkts_hint.max(8);
    let ack_kinds_ok = !avoid.lost_ack;
    for _ in 0..drops {
        let sel = if rng.chance(1, 2) {
            Sel::Idx(rng.below(span as u64) as u32)
        } else {
            let mut kinds = vec![Kind::Syn, Kind::SynAck, Kind::Data, Kind::Data];
            if ack_kinds_ok {
                kinds.extend([Kind::Ack, Kind::WinUpd, Kind::Fin]);
            }
            if !avoid.lost_hsack {
                kinds.push(Kind::HsAck);
            }
            Sel::Kind { dir: rng.below(2) as u8, kind: *rng.pick(&kinds), nth: rng.below(4) as u32 }
        };
        // an index fault may hit an ACK: with the lost-ACK defect present only kind faults are used
        let sel = if !ack_kinds_ok { if let Sel::Idx(_) = sel { Sel::Kind { dir: rng.below(2) as u8, kind: Kind::Data, nth: rng.below(6) as u32 } } else { sel } } else { sel };
        plan.faults.push(Fault { sel, act: Act::Drop });
    }
    for _ in 0..delays {
        let k = rng.range(1, dmax as u64) as u32;
        let sel = if rng.chance(2, 3) {
            Sel::Idx(rng.below(span as u64) as u32)
        } else {
            Sel::Kind { dir: rng.below(2) as u8, kind: *rng.pick(&[Kind::Syn, Kind::SynAck, Kind::HsAck, Kind::Data, Kind::Ack, Kind::WinUpd, Kind::Fin]), nth: rng.below(4) as u32 }
        };
        plan.faults.push(Fault { sel, act: Act::Delay(k) });
    }
    if rng.chance(1, 3) {
        let n = rng.range(1, 12);
        plan.reorder = (0..n).map(|_| *rng.pick(&[Order::Fifo, Order::Rev, Order::Swap, Order::Rot])).collect();
    }
    debug_assert!(plan_is_bounded(cfg, &plan));
    plan
}

/// More loss and delay than the premise of the liveness clause allows: safety only.
fn gen_heavy_plan(rng: &mut Rng, cfg: &Cfg, span: u32) -> Plan {
    let mut plan = Plan::none();
    let n = rng.range(3, 14);
    for _ in 0..n {
        let act = if rng.chance(1, 2) { Act::Drop } else { Act::Delay(rng.range(1, 25) as u32) };
        plan.faults.push(Fault { sel: Sel::Idx(rng.below(span.max(10) as u64) as u32), act });
    }
    while plan_is_bounded(cfg, &plan) {
        plan.faults.push(Fault { sel: Sel::Idx(rng.below(span.max(10) as u64) as u32), act: Act::Drop });
    }
    let r = rng.range(0, 20);
    plan.reorder = (0..r).map(|_| *rng.pick(&[Order::Fifo, Order::Rev, Order::Swap, Order::Rot])).collect();
    plan
}

pub fn generate(rng: &mut Rng, spread: &Spread) -> Scenario {
    let defects = defects();
    // while a known defect is present, 95 % of the scenarios keep clear of its trigger
    let guarded = defects.any() && !rng.chance(1, 20);
    let avoid = if guarded { defects } else { Defects::default() };

    let topo = match rng.weighted(&[8, 5, 1, 1, 1]) {
        0 => Topo::CrossV4,
        1 => Topo::CrossV6,
        2 => Topo::LoopV4,
        3 => Topo::LoopV6,
        _ => Topo::OwnV4,
    };
    let large = rng.chance(3, 4);
    let cfg = gen_cfg(rng, topo, spread.wide, avoid.zero_window && large);
    let unit = topo.mss(&cfg).min(cfg.send_cap).min(cfg.recv_cap).max(1);
    let mut sides;
    loop {
        let tc = gen_total(rng, unit);
        let ts = if rng.chance(1, 4) { 0 } else { gen_total(rng, unit) };
        sides = [gen_side(rng, tc, spread.wide), gen_side(rng, ts, spread.wide)];
        if rng.chance(1, 6) {
            sides[rng.below(2) as usize].wait_first = true;
        }
        // late readers: data (and the FIN) sit unread while the connection goes on — or goes down
        if rng.chance(1, 5) {
            let x = rng.below(2) as usize;
            let (t, b) = (cfg.retx_threshold as u64, cfg.budget_rounds() as u64);
            sides[x].read_delay = match rng.below(3) {
                0 => rng.range(1, 4),
                1 => rng.range(t, b),
                _ => b + rng.range(2, 3 * t + 8),
            } as u32;
        }
        // sequential application: write everything (or fail), only then read
        if rng.chance(1, 8) {
            sides[rng.below(2) as usize].read_after_write = true;
        }
        if avoid.zero_window {
            // keep clear of (b): a window that reaches zero is only drained by large reads
            for rx in 0..2 {
                if sides[1 - rx].total() > cfg.recv_cap as u64 {
                    let big = (cfg.recv_cap / 2).max(1);
                    for r in sides[rx].reads.iter_mut() {
                        *r = (*r).max(big);
                    }
                }
            }
        }
        if workload_ok(&sides) {
            break;
        }
    }
    let span = (sides[0].total() + sides[1].total()) as u32 / unit + 8;
    let plan = if !topo.cross() {
        Plan::none()
    } else {
        match rng.weighted(&[10, 6, 2, 2]) {
            0 => Plan::none(), // systematic single-fault placement happens in `variants`
            1 => gen_bounded_plan(rng, &cfg, span, &avoid),
            2 => {
                let from = rng.below(span as u64 + 4) as u32;
                let hole = if rng.chance(1, 2) { Hole::All { from } } else { Hole::Dir { from, dir: rng.below(2) as u8 } };
                // in half of the exhaustion runs one application reads only after the stack must
                // have given up: whatever it is told then must not look like a clean end
                if rng.chance(1, 2) {
                    let x = rng.below(2) as usize;
                    sides[x].read_delay = from + cfg.budget_rounds() + rng.range(2, 12) as u32;
                }
                Plan { faults: vec![], hole, reorder: vec![] }
            }
            _ => gen_heavy_plan(rng, &cfg, span),
        }
    };
    let udp = if spread.wide && rng.chance(1, 2) {
        let n = rng.range(1, 4);
        (0..n)
            .map(|_| {
                let v6 = rng.bool();
                let lo = rng.chance(1, 3);
                let mtu = if lo { cfg.lo_mtu } else { cfg.mtu };
                let limit = mtu.saturating_sub(if v6 { IPV6_HDR } else { IPV4_HDR }).saturating_sub(UDP_HDR);
                let size = match rng.below(5) {
                    0 => limit,
                    1 => limit + 1,
                    2 => limit.saturating_sub(1),
                    3 => rng.range(0, limit as u64 + 40) as u32,
                    _ => limit + rng.range(1, 2000) as u32,
                };
                let how = *rng.pick(&[UdpHow::SendTo, UdpHow::TrySendTo, UdpHow::ConnSend, UdpHow::ConnTrySend]);
                UdpOp { v6, lo, size: size.min(70_000), how, bind_lo: matches!(topo, Topo::CrossV4 | Topo::CrossV6) && rng.chance(1, 4) }
            })
            .collect()
    } else {
        vec![]
    };
    // a slice of the runs goes end-to-end through turmoil-net's own fixtures (plan as a Rule closure)
    let via = if rng.chance(1, 16) && plan.hole == Hole::None { Via::Fixture } else { Via::Wire };
    let mut plan = plan;
    if via == Via::Fixture {
        plan.reorder.clear();
    }
    let mut sc = Scenario {
        guarded,
        via,
        cfg,
        topo,
        bind_wild: rng.bool(),
        sides,
        plan,
        poll: *rng.pick(&[PollOrder::Fwd, PollOrder::Rev, PollOrder::Rot, PollOrder::Alt]),
        spurious: if rng.chance(1, 4) { rng.range(1, 5) as u8 } else { 0 },
        udp,
        lo_side: None,
    };
    if sc.via == Via::Fixture {
        // (the abortive close is judged on the own wire only, where a lost RST is known)
        for x in 0..2 {
            if sc.sides[x].close == Close::Abort {
                sc.sides[x].close = Close::DropAll;
            }
        }
    }
    if sc.topo.cross() && sc.via == Via::Wire && rng.chance(1, 6) {
        sc.lo_side = Some(LoSide { chunk: *rng.pick(&[200u32, 1500, 3000, 9000]), chunks: rng.range(2, 12) as u8, gap: rng.range(0, 2) as u8 });
    }
    if guarded && avoid.hs_budget && mode_of(&sc) == Mode::Bounded {
        // keep clear of (d): drop delay faults until the static trigger is gone
        while trigger_hs_budget(&sc) {
            let i = sc.plan.faults.iter().position(|f| matches!(f.act, Act::Delay(_))).unwrap();
            sc.plan.faults.remove(i);
        }
    }
    if guarded && mode_of(&sc) == Mode::Bounded && ((avoid.no_timewait && trigger_no_timewait(&sc)) || (avoid.zw_refused && trigger_zw_refused(&sc))) {
        // keep clear of (f) / (g): under a disturbed wire everybody reads as soon as data is there
        for x in 0..2 {
            sc.sides[x].read_delay = 0;
            sc.sides[x].read_after_write = false;
        }
    }
    if guarded && avoid.hs_data && trigger_hs_data(&sc) && mode_of(&sc) == Mode::Bounded {
        // keep clear of (e): a budget of more than one retransmission
        sc.cfg.retx_max = 2;
        sc.plan.faults.retain(|f| !matches!(f.act, Act::Delay(_)));
    }
    if guarded && avoid.zero_window && trigger_zero_window(&sc) {
        // a drop / delay in the plan turned a harmless small cap into a trigger: enlarge the buffer
        sc.cfg.recv_cap = 65536;
    }
    sc
}

// ------------------------------------------------------------------------------------------------
// systematic fault placement over the recorded fault-free packet sequence

pub fn variants(base: &Scenario, tier: Tier, max_single: usize) -> Vec<Scenario> {
    let mut out = vec![base.clone()];
    if base.topo.cross() && base.plan.hole != Hole::None && base.plan.faults.is_empty() {
        // exhaustion: the point from which everything is lost is moved over the whole fault-free
        // packet sequence of this workload
        let mut free = base.clone();
        free.plan = Plan::none();
        let n = run_conn(&free, false).packets.len();
        let k = max_single.min(n).max(1);
        for i in 0..k {
            let from = (i * n / k) as u32;
            let mut s = base.clone();
            s.plan.hole = match base.plan.hole {
                Hole::All { .. } => Hole::All { from },
                Hole::Dir { dir, .. } => Hole::Dir { from, dir },
                Hole::None => Hole::None,
            };
            if s.plan.hole != base.plan.hole {
                out.push(s);
            }
        }
        return out;
    }
    if !base.topo.cross() || !base.plan.is_empty() {
        return out;
    }
    let avoid = if base.guarded { defects() } else { Defects::default() };
    let max_single = if base.via == Via::Fixture { max_single.min(10) } else { max_single };
    let rec = run_conn(base, false);
    if rec.v6.is_some() || rec.harness_error.is_some() {
        return out;
    }
    let n = rec.packets.len();
    let dmax = max_bounded_delay(&base.cfg, 0);
    let can_drop = base.cfg.retx_max >= 2;
    let with = |faults: Vec<Fault>| -> Scenario {
        let mut s = base.clone();
        s.plan.faults = faults;
        s
    };
    let guard_ok = |s: &Scenario, kinds: &[Kind], drop: bool| -> bool {
        if !s.guarded {
            return true;
        }
        if drop && avoid.lost_ack && kinds.iter().any(|k| matches!(k, Kind::Ack | Kind::WinUpd | Kind::Fin)) {
            return false;
        }
        if drop && avoid.lost_hsack && kinds.contains(&Kind::HsAck) {
            return false;
        }
        if avoid.hs_budget && trigger_hs_budget(s) {
            return false;
        }
        if avoid.hs_data && trigger_hs_data(s) {
            return false;
        }
        if avoid.no_timewait && trigger_no_timewait(s) {
            return false;
        }
        if avoid.zw_refused && trigger_zw_refused(s) {
            return false;
        }
        !(avoid.zero_window && trigger_zero_window(s))
    };
    // every index when the sequence is short, an evenly spread sample otherwise
    let idxs: Vec<usize> = if n <= max_single { (0..n).collect() } else { (0..max_single).map(|i| i * n / max_single).collect() };
    for &i in &idxs {
        let k = rec.packets[i].kind;
        if can_drop {
            let s = with(vec![Fault { sel: Sel::Idx(i as u32), act: Act::Drop }]);
            if guard_ok(&s, &[k], true) {
                out.push(s);
            }
        }
        let mut ds = vec![];
        if dmax >= 1 {
            ds.push(1);
        }
        if dmax >= 2 {
            ds.push(dmax);
        }
        for d in ds {
            let s = with(vec![Fault { sel: Sel::Idx(i as u32), act: Act::Delay(d) }]);
            if guard_ok(&s, &[k], false) {
                out.push(s);
            }
        }
    }
    if tier == Tier::Thorough && n <= 25 {
        let d2 = max_bounded_delay(&base.cfg, 1);
        for i in 0..n {
            for j in (i + 1)..n {
                let (ki, kj) = (rec.packets[i].kind, rec.packets[j].kind);
                if base.cfg.retx_max >= 3 {
                    let s = with(vec![Fault { sel: Sel::Idx(i as u32), act: Act::Drop }, Fault { sel: Sel::Idx(j as u32), act: Act::Drop }]);
                    if guard_ok(&s, &[ki, kj], true) {
                        out.push(s);
                    }
                }
                if can_drop && d2 >= 1 {
                    let s = with(vec![Fault { sel: Sel::Idx(i as u32), act: Act::Drop }, Fault { sel: Sel::Idx(j as u32), act: Act::Delay(d2) }]);
                    if guard_ok(&s, &[ki, kj], true) {
                        out.push(s);
                    }
                    let s = with(vec![Fault { sel: Sel::Idx(i as u32), act: Act::Delay(d2) }, Fault { sel: Sel::Idx(j as u32), act: Act::Drop }]);
                    if guard_ok(&s, &[ki, kj], true) {
                        out.push(s);
                    }
                }
            }
        }
    }
    out
}

// ------------------------------------------------------------------------------------------------
// shrinking

pub fn shrink(sc: &Scenario) -> Vec<Scenario> {
    let mut out: Vec<Scenario> = Vec::new();
    let mut push = |s: Scenario| {
        if s != *sc && workload_ok(&s.sides) {
            out.push(s)
        }
    };
    // faults: drop each, make each milder
    for i in 0..sc.plan.faults.len() {
        let mut s = sc.clone();
        s.plan.faults.remove(i);
        push(s);
    }
    for i in 0..sc.plan.faults.len() {
        if let Act::Delay(k) = sc.plan.faults[i].act {
            if k > 1 {
                let mut s = sc.clone();
                s.plan.faults[i].act = Act::Delay(k / 2);
                push(s);
            }
        }
    }
    match sc.plan.hole {
        Hole::All { from } | Hole::Dir { from, .. } if from > 0 => {
            for f in [from / 2, from - 1] {
                let mut s = sc.clone();
                s.plan.hole = match sc.plan.hole {
                    Hole::All { .. } => Hole::All { from: f },
                    Hole::Dir { dir, .. } => Hole::Dir { from: f, dir },
                    Hole::None => Hole::None,
                };
                push(s);
            }
        }
        _ => {}
    }
    if !sc.plan.reorder.is_empty() {
        let mut s = sc.clone();
        s.plan.reorder.clear();
        push(s);
        let mut s = sc.clone();
        s.plan.reorder.pop();
        push(s);
    }
    if !sc.udp.is_empty() {
        let mut s = sc.clone();
        s.udp.clear();
        push(s);
        for i in 0..sc.udp.len() {
            let mut s = sc.clone();
            s.udp.remove(i);
            push(s);
        }
    }
    // programs
    for x in 0..2 {
        let side = &sc.sides[x];
        if side.total() > 0 {
            let mut s = sc.clone();
            s.sides[x].writes = vec![];
            push(s);
            let mut s = sc.clone();
            s.sides[x].writes = vec![(side.total() / 2) as u32];
            push(s);
            let mut s = sc.clone();
            s.sides[x].writes = vec![side.total() as u32 - 1];
            push(s);
        }
        if side.writes.len() > 1 {
            let mut s = sc.clone();
            s.sides[x].writes = vec![side.total() as u32];
            push(s);
        }
        if side.reads.len() > 1 {
            for i in 0..side.reads.len() {
                let mut s = sc.clone();
                s.sides[x].reads = vec![side.reads[i]];
                push(s);
            }
        }
        if side.reads != [4096] {
            let mut s = sc.clone();
            s.sides[x].reads = vec![4096];
            push(s);
        }
        if side.peek > 0 {
            let mut s = sc.clone();
            s.sides[x].peek = 0;
            push(s);
        }
        if side.try_write {
            let mut s = sc.clone();
            s.sides[x].try_write = false;
            push(s);
        }
        if side.wait_first {
            let mut s = sc.clone();
            s.sides[x].wait_first = false;
            push(s);
        }
        if side.read_delay > 0 {
            let mut s = sc.clone();
            s.sides[x].read_delay = 0;
            push(s);
            let mut s = sc.clone();
            s.sides[x].read_delay = side.read_delay / 2;
            push(s);
        }
        if side.read_after_write {
            let mut s = sc.clone();
            s.sides[x].read_after_write = false;
            push(s);
        }
        if side.close != Close::Shutdown {
            let mut s = sc.clone();
            s.sides[x].close = Close::Shutdown;
            push(s);
        }
    }
    // configuration towards the defaults
    let d = Cfg { mtu: 1500, lo_mtu: 65536, send_cap: 65536, recv_cap: 65536, retx_threshold: 3, retx_max: 5 };
    let mut tweak = |f: &dyn Fn(&mut Cfg)| {
        let mut s = sc.clone();
        f(&mut s.cfg);
        push(s);
    };
    if sc.cfg.send_cap != d.send_cap {
        tweak(&|c| c.send_cap = 65536);
    }
    if sc.cfg.recv_cap != d.recv_cap {
        tweak(&|c| c.recv_cap = 65536);
    }
    if sc.cfg.mtu != d.mtu {
        tweak(&|c| c.mtu = 1500);
    }
    if sc.cfg.lo_mtu != d.lo_mtu {
        tweak(&|c| c.lo_mtu = 65536);
    }
    if sc.cfg.retx_threshold != d.retx_threshold {
        tweak(&|c| c.retx_threshold = 3);
    }
    if sc.cfg.retx_max != d.retx_max {
        tweak(&|c| c.retx_max = 5);
    }
    if sc.poll != PollOrder::Fwd {
        let mut s = sc.clone();
        s.poll = PollOrder::Fwd;
        push(s);
    }
    if sc.spurious != 0 {
        let mut s = sc.clone();
        s.spurious = 0;
        push(s);
    }
    if sc.bind_wild {
        let mut s = sc.clone();
        s.bind_wild = false;
        push(s);
    }
    if sc.via == Via::Fixture {
        let mut s = sc.clone();
        s.via = Via::Wire;
        push(s);
    }
    if sc.topo == Topo::CrossV6 {
        let mut s = sc.clone();
        s.topo = Topo::CrossV4;
        // keep the MSS
        s.cfg.mtu = s.cfg.mtu.saturating_sub(20).max(41);
        push(s);
    }
    out
}

pub fn signature(sc: &Scenario, out: &Outcome, class: &str) -> String {
    let known = classify_known(sc, out, class).map(|k| format!("KNOWN[{k}] ")).unwrap_or_default();
    let faults: Vec<String> = out
        .fired
        .iter()
        .map(|f| {
            format!(
                "{}{}{}",
                match f.act {
                    Act::Drop => "drop:".to_string(),
                    Act::Delay(k) => format!("delay{k}:"),
                },
                if f.dir == C2S { "c>" } else { "s>" },
                f.kind.name()
            )
        })
        .collect();
    format!(
        "{known}{}{} {:?} {:?} mss={} caps(s{},r{}) T{} M{} totals({},{}) minread({},{}) late({}{},{}{}) zw={} hole={:?} reorder={} faults[{}]",
        if sc.guarded { "G" } else { "U" },
        if sc.via == Via::Fixture { " FIXTURE" } else { "" },
        out.mode,
        sc.topo,
        sc.topo.mss(&sc.cfg),
        sc.cfg.send_cap,
        sc.cfg.recv_cap,
        sc.cfg.retx_threshold,
        sc.cfg.retx_max,
        sc.sides[0].total(),
        sc.sides[1].total(),
        sc.sides[0].min_read(),
        sc.sides[1].min_read(),
        sc.sides[0].read_delay,
        if sc.sides[0].read_after_write { "w" } else { "" },
        sc.sides[1].read_delay,
        if sc.sides[1].read_after_write { "w" } else { "" },
        out.zero_window_seen,
        sc.plan.hole,
        sc.plan.reorders(),
        faults.join(",")
    )
}
