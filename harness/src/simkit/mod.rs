//! simkit: driving `turmoil::Sim` (see DESIGN.md section 4.1).
