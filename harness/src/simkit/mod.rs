//! simkit: driving `turmoil::Sim` (see DESIGN.md section 4.1).
//!
//! Shared pieces for the Sim-based properties: a serialisable builder configuration with a seeded
//! generator, a shared event log that host programs (futures on turmoil's per-host runtimes) and the
//! controller (the code between `Sim::step` calls) both write to, and a thread-local capture of
//! turmoil's own `tracing` events (target "turmoil") for fault-fired counters and C01's trace.

use crate::core::prng::Rng;
use crate::core::Log;
use serde::{Deserialize, Serialize};
use std::cell::RefCell;
use std::rc::Rc;
use std::time::{Duration, UNIX_EPOCH};
use turmoil::{Builder, IpVersion, Sim};

pub mod links;
pub mod tcpprog;

#[derive(Clone, Debug, Serialize, Deserialize, PartialEq)]
pub struct SimCfg {
    /// turmoil's own rng seed (Builder::rng_seed) — always explicit
    pub rng_seed: u64,
    /// epoch, seconds after UNIX_EPOCH — always explicit
    pub epoch_s: u64,
    /// sub-second part of the epoch in microseconds (0 unless a property sets it)
    #[serde(default)]
    pub epoch_sub_us: u32,
    pub tick_us: u64,
    pub duration_ms: u64,
    pub min_latency_us: u64,
    pub max_latency_us: u64,
    /// Sim::set_message_latency_curve (None = default)
    pub latency_curve_milli: Option<u64>,
    /// per mille
    pub fail_rate_pm: u32,
    pub repair_rate_pm: u32,
    pub random_order: bool,
    pub tcp_capacity: usize,
    pub udp_capacity: usize,
    /// ephemeral port range (None = turmoil's default)
    pub ephemeral: Option<(u16, u16)>,
    pub ipv6: bool,
}

impl Default for SimCfg {
    fn default() -> Self {
        SimCfg {
            rng_seed: 1,
            epoch_s: 1_700_000_000,
            epoch_sub_us: 0,
            tick_us: 1000,
            duration_ms: 10_000,
            min_latency_us: 0,
            max_latency_us: 100_000,
            latency_curve_milli: None,
            fail_rate_pm: 0,
            repair_rate_pm: 1000,
            random_order: false,
            tcp_capacity: 64,
            udp_capacity: 64,
            ephemeral: None,
            ipv6: false,
        }
    }
}

/// What a property allows the configuration generator to vary.
#[derive(Clone, Debug)]
pub struct CfgProfile {
    /// allow min < max latency (messages overtake each other)
    pub latency_range: bool,
    /// allow fail_rate > 0 (random link partitions)
    pub random_failures: bool,
    pub small_capacities: bool,
    pub max_tick_ms: u64,
    pub max_latency_ticks: u64,
}

impl Default for CfgProfile {
    fn default() -> Self {
        CfgProfile { latency_range: true, random_failures: false, small_capacities: false, max_tick_ms: 20, max_latency_ticks: 12 }
    }
}

impl SimCfg {
    pub fn gen(rng: &mut Rng, p: &CfgProfile) -> SimCfg {
        let tick_ms = *rng.pick(&[1u64, 1, 1, 2, 5, 7, 10, 20]);
        let tick_ms = tick_ms.min(p.max_tick_ms.max(1));
        let tick_us = tick_ms * 1000;
        let min_ticks = rng.below(p.max_latency_ticks.max(1));
        let min_latency_us = match rng.below(4) {
            0 => 0,
            1 => min_ticks * tick_us,
            // not aligned to the tick
            _ => min_ticks * tick_us + rng.below(tick_us),
        };
        let max_latency_us = if p.latency_range && rng.chance(2, 3) {
            min_latency_us + rng.range(1, p.max_latency_ticks.max(1)) * tick_us + rng.below(tick_us)
        } else {
            min_latency_us
        };
        let (fail, repair) = if p.random_failures && rng.chance(1, 2) {
            (*rng.pick(&[10u32, 50, 200, 500, 1000]), *rng.pick(&[100u32, 300, 700, 1000]))
        } else {
            (0, 1000)
        };
        let caps: &[usize] = if p.small_capacities { &[1, 2, 3, 8, 64] } else { &[64] };
        SimCfg {
            rng_seed: rng.next_u64(),
            epoch_s: 1_000_000_000 + rng.below(1_000_000_000),
            epoch_sub_us: 0,
            tick_us,
            duration_ms: 3_600_000,
            min_latency_us,
            max_latency_us,
            latency_curve_milli: if rng.chance(1, 4) { Some(*rng.pick(&[500u64, 1000, 5000, 20000])) } else { None },
            fail_rate_pm: fail,
            repair_rate_pm: repair,
            random_order: rng.chance(1, 3),
            tcp_capacity: *rng.pick(caps),
            udp_capacity: *rng.pick(caps),
            ephemeral: None,
            ipv6: rng.chance(1, 4),
        }
    }

    pub fn tick(&self) -> Duration {
        Duration::from_micros(self.tick_us)
    }
    pub fn min_latency(&self) -> Duration {
        Duration::from_micros(self.min_latency_us)
    }
    pub fn max_latency(&self) -> Duration {
        Duration::from_micros(self.max_latency_us)
    }
    /// ceil(max_latency / tick)
    pub fn max_latency_ticks(&self) -> u64 {
        self.max_latency_us.div_ceil(self.tick_us.max(1))
    }

    pub fn build<'a>(&self) -> Sim<'a> {
        let mut b = Builder::new();
        b.rng_seed(self.rng_seed)
            .epoch(UNIX_EPOCH + Duration::from_secs(self.epoch_s) + Duration::from_micros(self.epoch_sub_us as u64))
            .tick_duration(self.tick())
            .simulation_duration(Duration::from_millis(self.duration_ms))
            .min_message_latency(self.min_latency())
            .max_message_latency(self.max_latency())
            .fail_rate(self.fail_rate_pm as f64 / 1000.0)
            .repair_rate(self.repair_rate_pm as f64 / 1000.0)
            .tcp_capacity(self.tcp_capacity)
            .udp_capacity(self.udp_capacity)
            .ip_version(if self.ipv6 { IpVersion::V6 } else { IpVersion::V4 });
        if self.random_order {
            b.enable_random_order();
        }
        if let Some((lo, hi)) = self.ephemeral {
            b.ephemeral_ports(lo..=hi);
        }
        let sim = b.build();
        if let Some(c) = self.latency_curve_milli {
            sim.set_message_latency_curve(c as f64 / 1000.0);
        }
        sim
    }
}

/// Event log shared between host programs and the controller. The run is single-threaded, so the
/// log's sequence counter is a total order of all observations.
#[derive(Clone)]
pub struct SharedLog(pub Rc<RefCell<Log>>);

impl SharedLog {
    pub fn new(keep: bool) -> Self {
        SharedLog(Rc::new(RefCell::new(Log::new(keep))))
    }
    pub fn ev(&self, s: impl AsRef<str>) -> u64 {
        self.0.borrow_mut().ev(s)
    }
    pub fn tag(&self, s: &str) {
        self.0.borrow_mut().tag(s)
    }
    pub fn seq(&self) -> u64 {
        self.0.borrow().seq
    }
    /// Take the log out (call when the Sim and all programs are gone or no longer log).
    pub fn take(&self) -> Log {
        std::mem::take(&mut *self.0.borrow_mut())
    }
}

pub fn us(d: Duration) -> u64 {
    d.as_micros() as u64
}

// ------------------------------------------------------------------------------------------------
// tracing capture (thread-local): turmoil emits Send / Delivered / Recv / Drop / Hold ... events
// with target "turmoil"; hosts run inside a span "node" with field `name`.

pub mod udpmodel;

pub mod trace {
    use std::cell::RefCell;
    use std::fmt::Write;
    use std::sync::atomic::{AtomicU64, Ordering};
    use tracing::field::{Field, Visit};
    use tracing::span::{Attributes, Id, Record};
    use tracing::{Event, Metadata, Subscriber};

    thread_local! {
        static EVENTS: RefCell<Vec<String>> = const { RefCell::new(Vec::new()) };
        static SPANS: RefCell<Vec<(u64, String)>> = const { RefCell::new(Vec::new()) };
        static STACK: RefCell<Vec<u64>> = const { RefCell::new(Vec::new()) };
    }

    struct V<'a>(&'a mut String);
    impl Visit for V<'_> {
        fn record_debug(&mut self, field: &Field, value: &dyn std::fmt::Debug) {
            let _ = write!(self.0, " {}={:?}", field.name(), value);
        }
    }

    pub struct Capture {
        next: AtomicU64,
    }

    impl Subscriber for Capture {
        fn enabled(&self, m: &Metadata<'_>) -> bool {
            m.target() == "turmoil"
        }
        fn new_span(&self, a: &Attributes<'_>) -> Id {
            let id = self.next.fetch_add(1, Ordering::Relaxed);
            let mut s = String::new();
            a.record(&mut V(&mut s));
            SPANS.with(|sp| {
                let mut sp = sp.borrow_mut();
                if sp.len() > 64 {
                    sp.remove(0);
                }
                sp.push((id, s));
            });
            Id::from_u64(id)
        }
        fn record(&self, _: &Id, _: &Record<'_>) {}
        fn record_follows_from(&self, _: &Id, _: &Id) {}
        fn event(&self, e: &Event<'_>) {
            if !CAPTURING.with(|c| c.get()) {
                return;
            }
            let mut s = String::new();
            let cur = STACK.with(|st| st.borrow().last().copied());
            if let Some(c) = cur {
                SPANS.with(|sp| {
                    if let Some((_, n)) = sp.borrow().iter().rev().find(|(i, _)| *i == c) {
                        let _ = write!(s, "[{}]", n.trim());
                    }
                });
            }
            e.record(&mut V(&mut s));
            EVENTS.with(|ev| ev.borrow_mut().push(s));
        }
        fn enter(&self, id: &Id) {
            STACK.with(|st| st.borrow_mut().push(id.into_u64()));
        }
        fn exit(&self, _: &Id) {
            STACK.with(|st| {
                st.borrow_mut().pop();
            });
        }
    }

    thread_local! {
        static CAPTURING: std::cell::Cell<bool> = const { std::cell::Cell::new(false) };
    }

    /// One process-wide subscriber, installed once. (Per-run `with_default` dispatchers made tracing
    /// rebuild its global callsite-interest cache whenever another worker thread started or finished a
    /// run, and events emitted on this thread during such a rebuild were occasionally skipped — a
    /// nondeterminism of the capture, not of the subject.)
    fn install() {
        static ONCE: std::sync::Once = std::sync::Once::new();
        ONCE.call_once(|| {
            let _ = tracing::subscriber::set_global_default(Capture { next: AtomicU64::new(1) });
        });
    }

    /// Run `f` with turmoil's tracing events captured on this thread; returns them in order.
    pub fn capture<R>(f: impl FnOnce() -> R) -> (R, Vec<String>) {
        install();
        EVENTS.with(|e| e.borrow_mut().clear());
        SPANS.with(|e| e.borrow_mut().clear());
        STACK.with(|e| e.borrow_mut().clear());
        let prev = CAPTURING.with(|c| c.replace(true));
        let r = f();
        CAPTURING.with(|c| c.set(prev));
        let ev = EVENTS.with(|e| std::mem::take(&mut *e.borrow_mut()));
        (r, ev)
    }

    /// RAII form of `capture` for runs that only want the events to be *formatted* (what they say is
    /// dropped): the subscriber is installed and enabled on this thread until the guard goes.
    pub struct Enabled(bool);
    impl Enabled {
        #[allow(clippy::new_without_default)]
        pub fn new() -> Self {
            install();
            EVENTS.with(|e| e.borrow_mut().clear());
            Enabled(CAPTURING.with(|c| c.replace(true)))
        }
    }
    impl Drop for Enabled {
        fn drop(&mut self) {
            CAPTURING.with(|c| c.set(self.0));
            EVENTS.with(|e| e.borrow_mut().clear());
        }
    }

    /// Drain what has been captured so far (inside `capture`).
    pub fn drain() -> Vec<String> {
        EVENTS.with(|e| std::mem::take(&mut *e.borrow_mut()))
    }
}

/// Position-coded payload: byte i of stream (conn, dir) is a function of (conn, dir, absolute offset),
/// so loss, duplication, reordering and corruption are attributable.
pub fn stream_byte(conn: u32, dir: u8, off: u64) -> u8 {
    let x = (conn as u64).wrapping_mul(0x9E37_79B9).wrapping_add((dir as u64) << 20).wrapping_add(off.wrapping_mul(2654435761));
    ((x >> 7) ^ (x >> 17) ^ off) as u8
}

pub fn stream_bytes(conn: u32, dir: u8, off: u64, len: usize) -> Vec<u8> {
    (0..len as u64).map(|i| stream_byte(conn, dir, off + i)).collect()
}
