//! Reference routing model for `turmoil::net::UdpSocket` (property C09), written from the property
//! text: a bind table (host, port, wildcard/localhost, connected peer, flags) and a membership table,
//! both as *timelines*, plus the history check that relates every receive to a send.
//!
//! The model is three-valued. For a datagram D and a socket X in some state the routing predicate
//! says `Yes` (the text makes X a destination), `No` (the text excludes X) or `May` (the text is
//! silent: localhost-bound sockets and connected filters for broadcast / multicast, multicast loop
//! flags that disagree between sender and member). A receive is accepted iff at some instant between
//! the send and the receive the predicate was not `No` (destination sets may be evaluated at send
//! time or at delivery time; both readings are accepted). A datagram is *owed* to X ("exactly one")
//! only if the predicate was `Yes` during the whole window from the send to the delivery deadline,
//! the link is healthy and the model's bound on X's queue depth at the arrival stays within the
//! capacity.
//!
//! All timing is in simulation steps (the controller publishes the step index); the deadline is
//! `ceil(max_latency / tick) + 2` steps after the step of the send.

use std::collections::{BTreeMap, BTreeSet};
use std::net::{IpAddr, SocketAddr};

/// Bytes 0..2 = datagram id (big endian), byte 2 = sender tag; the rest is a function of (id, index).
pub const ID_LEN: usize = 3;

pub fn payload(id: u16, tag: u8, len: usize) -> Vec<u8> {
    (0..len)
        .map(|i| match i {
            0 => (id >> 8) as u8,
            1 => id as u8,
            2 => tag,
            _ => {
                let x = (id as u32).wrapping_mul(2654435761).wrapping_add((i as u32).wrapping_mul(40503));
                ((x >> 9) ^ (x >> 19) ^ i as u32) as u8
            }
        })
        .collect()
}

#[derive(Clone, Copy, PartialEq, Eq, Debug)]
pub enum Tri {
    No,
    May,
    Yes,
}

#[derive(Clone, Debug, PartialEq)]
pub struct SockState {
    /// bound to the loopback address (else: wildcard)
    pub local: bool,
    pub port: u16,
    pub filter: Option<SocketAddr>,
    pub bcast: bool,
    pub mloop: bool,
    pub groups: BTreeSet<IpAddr>,
}

#[derive(Clone, Debug)]
struct Snap {
    seq: u64,
    step: u32,
    st: SockState,
}

#[derive(Clone, Debug)]
pub struct Sock {
    pub host: usize,
    /// printable identity, e.g. "n1.a0#2"
    pub name: String,
    pub born_seq: u64,
    pub dead: Option<(u64, u32)>,
    snaps: Vec<Snap>,
}

impl Sock {
    pub fn port(&self) -> u16 {
        self.cur().port
    }
    fn cur(&self) -> &SockState {
        &self.snaps.last().unwrap().st
    }
    /// States in force at some instant of [from_seq, to_seq].
    fn states_in(&self, from_seq: u64, to_seq: u64) -> impl Iterator<Item = &Snap> {
        // index of the snapshot in force at from_seq
        let first = self.snaps.iter().rposition(|s| s.seq <= from_seq);
        let dead_before = self.dead.map(|(d, _)| d <= from_seq).unwrap_or(false);
        self.snaps.iter().enumerate().filter_map(move |(i, s)| {
            if dead_before {
                return None;
            }
            let in_force_at_start = Some(i) == first;
            let begins_inside = s.seq > from_seq && s.seq <= to_seq;
            if in_force_at_start || begins_inside {
                Some(s)
            } else {
                None
            }
        })
    }
}

#[derive(Clone, Copy, Debug, PartialEq, Eq)]
pub enum Class {
    /// unicast to the address of host h (h may be the sender's own host)
    Unicast(usize),
    Loopback,
    Broadcast,
    Multicast(IpAddr),
    /// an address nobody owns
    Nowhere,
}

#[derive(Clone, Debug)]
pub struct SendRec {
    pub id: u16,
    pub tag: u8,
    pub seq: u64,
    pub step: u32,
    pub sock: usize,
    pub src_host: usize,
    pub src_port: u16,
    pub src_local: bool,
    pub src_bcast: bool,
    pub src_mloop: bool,
    pub dst: SocketAddr,
    pub class: Class,
    pub len: usize,
    pub ok: bool,
}

#[derive(Clone, Debug, PartialEq)]
pub enum Outcome {
    Data { len: usize, origin: Option<SocketAddr>, bytes: Vec<u8> },
    /// WouldBlock: the queue was empty at this instant
    Empty,
    /// a blocking receive gave up
    Timeout,
}

#[derive(Clone, Debug)]
pub struct RecvRec {
    pub start_seq: u64,
    pub start_step: u32,
    pub seq: u64,
    pub step: u32,
    /// step in which a blocking wait ended (== step unless the datagram was consumed later, as with
    /// readable() ... try_recv)
    pub ready_step: u32,
    pub sock: usize,
    pub buf: usize,
    /// the first poll of a blocking receive found the queue empty
    pub first_pending: bool,
    pub outcome: Outcome,
}

#[derive(Clone, Debug)]
pub struct NetCfg {
    pub capacity: usize,
    /// ceil(min_latency / tick), ceil(max_latency / tick)
    pub min_ticks: u32,
    pub max_ticks: u32,
    /// fail_rate == 0 and no partitions
    pub healthy: bool,
}

#[derive(Default, Debug, Clone)]
pub struct Stats {
    pub owed_pairs: u64,
    pub short_owed_pairs: u64,
    pub allowed_receives: u64,
    pub ambiguous_receives: u64,
    pub fanout2: u64,
    pub overflow_loss_observed: u64,
    pub received_after_leave_or_rebind_window: u64,
    pub may_receives: u64,
    pub truncated_receives: u64,
    pub empty_observations: u64,
    pub not_delivered_unbound_or_filtered: u64,
}

pub struct Model {
    pub addrs: Vec<IpAddr>,
    pub cfg: NetCfg,
    pub socks: Vec<Sock>,
    pub sends: Vec<SendRec>,
    pub recvs: Vec<RecvRec>,
}

#[derive(Debug, Clone, PartialEq)]
pub struct Bad {
    pub class: &'static str,
    pub message: String,
}

impl Model {
    pub fn new(addrs: Vec<IpAddr>, cfg: NetCfg) -> Model {
        Model { addrs, cfg, socks: Vec::new(), sends: Vec::new(), recvs: Vec::new() }
    }

    pub fn loopback_ip(&self) -> IpAddr {
        if self.addrs.first().map(|a| a.is_ipv6()).unwrap_or(false) {
            IpAddr::V6(std::net::Ipv6Addr::LOCALHOST)
        } else {
            IpAddr::V4(std::net::Ipv4Addr::LOCALHOST)
        }
    }

    // ---- bind table / membership table updates (each returns nothing: the table just follows the API calls) ----

    pub fn bind(&mut self, seq: u64, step: u32, host: usize, name: String, local: bool, port: u16) -> usize {
        let st = SockState { local, port, filter: None, bcast: false, mloop: true, groups: BTreeSet::new() };
        self.socks.push(Sock { host, name, born_seq: seq, dead: None, snaps: vec![Snap { seq, step, st }] });
        self.socks.len() - 1
    }

    fn update(&mut self, sock: usize, seq: u64, step: u32, f: impl FnOnce(&mut SockState)) {
        let mut st = self.socks[sock].cur().clone();
        f(&mut st);
        self.socks[sock].snaps.push(Snap { seq, step, st });
    }

    pub fn connect(&mut self, sock: usize, seq: u64, step: u32, peer: SocketAddr) {
        self.update(sock, seq, step, |s| s.filter = Some(peer));
    }
    pub fn set_broadcast(&mut self, sock: usize, seq: u64, step: u32, on: bool) {
        self.update(sock, seq, step, |s| s.bcast = on);
    }
    pub fn set_loop(&mut self, sock: usize, seq: u64, step: u32, on: bool) {
        self.update(sock, seq, step, |s| s.mloop = on);
    }
    pub fn join(&mut self, sock: usize, seq: u64, step: u32, group: IpAddr) {
        self.update(sock, seq, step, |s| {
            s.groups.insert(group);
        });
    }
    pub fn leave(&mut self, sock: usize, seq: u64, step: u32, group: IpAddr) {
        self.update(sock, seq, step, |s| {
            s.groups.remove(&group);
        });
    }
    pub fn is_member(&self, sock: usize, group: IpAddr) -> bool {
        self.socks[sock].cur().groups.contains(&group)
    }
    pub fn drop_sock(&mut self, sock: usize, seq: u64, step: u32) {
        self.socks[sock].dead = Some((seq, step));
    }

    pub fn classify(&self, dst: SocketAddr) -> Class {
        let ip = dst.ip();
        if ip.is_loopback() {
            Class::Loopback
        } else if matches!(ip, IpAddr::V4(a) if a.is_broadcast()) {
            Class::Broadcast
        } else if ip.is_multicast() {
            Class::Multicast(ip)
        } else if let Some(h) = self.addrs.iter().position(|a| *a == ip) {
            Class::Unicast(h)
        } else {
            Class::Nowhere
        }
    }

    #[allow(clippy::too_many_arguments)]
    pub fn send(&mut self, seq: u64, step: u32, sock: usize, id: u16, tag: u8, dst: SocketAddr, len: usize, ok: bool) {
        let s = &self.socks[sock];
        let st = s.cur();
        let rec = SendRec {
            id,
            tag,
            seq,
            step,
            sock,
            src_host: s.host,
            src_port: st.port,
            src_local: st.local,
            src_bcast: st.bcast,
            src_mloop: st.mloop,
            dst,
            class: self.classify(dst),
            len,
            ok,
        };
        self.sends.push(rec);
    }

    pub fn recv(&mut self, r: RecvRec) {
        self.recvs.push(r);
    }

    /// The sender's socket address as seen on the path of `d`.
    pub fn origin(&self, d: &SendRec) -> SocketAddr {
        match d.class {
            Class::Loopback => SocketAddr::new(d.dst.ip(), d.src_port),
            _ => SocketAddr::new(self.addrs[d.src_host], d.src_port),
        }
    }

    /// Is socket `x` in state `st` a destination of `d`?
    pub fn targets(&self, d: &SendRec, x: &Sock, st: &SockState) -> Tri {
        let t = self.targets_routed(d, x, st);
        // the text is silent on what a socket bound to the loopback address reaches outside the loopback
        // address: such a datagram is owed to nobody (and a receipt by a regular destination is not judged);
        // what matters is that it disturbs no other datagram
        if d.src_local && !matches!(d.class, Class::Loopback) && t == Tri::Yes {
            return Tri::May;
        }
        t
    }

    fn targets_routed(&self, d: &SendRec, x: &Sock, st: &SockState) -> Tri {
        if st.port != d.dst.port() {
            return Tri::No;
        }
        let origin = self.origin(d);
        let filt = st.filter.map(|f| f == origin).unwrap_or(true);
        match d.class {
            Class::Unicast(h) => {
                // its host and bound port, respecting wildcard versus localhost binds and the connected peer
                if x.host != h || st.local || !filt {
                    Tri::No
                } else {
                    Tri::Yes
                }
            }
            Class::Loopback => {
                if x.host != d.src_host || !filt {
                    Tri::No
                } else {
                    Tri::Yes
                }
            }
            Class::Broadcast => {
                // every host with that port bound, when the sender enabled it
                if !d.src_bcast {
                    Tri::No
                } else if st.local || !filt {
                    Tri::May
                } else {
                    Tri::Yes
                }
            }
            Class::Multicast(g) => {
                if !st.groups.contains(&g) {
                    return Tri::No;
                }
                let mut r = if st.local || !filt { Tri::May } else { Tri::Yes };
                if x.host == d.src_host {
                    match (d.src_mloop, st.mloop) {
                        (true, true) => {}
                        (false, false) => return Tri::No,
                        _ => r = Tri::May,
                    }
                }
                r
            }
            Class::Nowhere => Tri::No,
        }
    }

    /// Best routing value of `x` for `d` over the instants between the send and `until_seq`.
    fn allowed_between(&self, d: &SendRec, xi: usize, until_seq: u64) -> Tri {
        let x = &self.socks[xi];
        let mut best = Tri::No;
        for s in x.states_in(d.seq, until_seq) {
            match self.targets(d, x, &s.st) {
                Tri::Yes => return Tri::Yes,
                Tri::May => best = Tri::May,
                Tri::No => {}
            }
        }
        best
    }

    /// `x` was bound after `d` was sent, to a port that at the send instant belonged to another socket
    /// of the same host which *was* a multicast destination of `d` (the datagram was in flight to the
    /// old member when the port changed hands).
    fn heir_of_member(&self, d: &SendRec, xi: usize) -> bool {
        let x = &self.socks[xi];
        if !matches!(d.class, Class::Multicast(_)) || x.born_seq <= d.seq {
            return false;
        }
        self.socks.iter().enumerate().any(|(yi, y)| {
            yi != xi && y.host == x.host && y.born_seq < d.seq && y.dead.map(|(ds, _)| ds > d.seq).unwrap_or(true) && y.states_in(d.seq, d.seq).any(|s| s.st.port == x.port() && self.targets(d, y, &s.st) != Tri::No)
        })
    }

    fn is_same_host(&self, d: &SendRec, x: &Sock) -> bool {
        matches!(d.class, Class::Loopback) || x.host == d.src_host
    }

    /// First and last step in which `d` can enter the queue of a socket on host `xh`.
    fn arrival_steps(&self, d: &SendRec, same_host: bool) -> (u32, u32) {
        if same_host {
            (d.step, d.step + 1)
        } else {
            (d.step + self.cfg.min_ticks, d.step + self.cfg.max_ticks + 1)
        }
    }

    pub fn deadline_step(&self, d: &SendRec, same_host: bool) -> u32 {
        if same_host {
            d.step + 3
        } else {
            d.step + self.cfg.max_ticks + 2
        }
    }

    /// `Yes` during the whole window [send, deadline] and alive throughout.
    fn stable_yes(&self, d: &SendRec, xi: usize) -> bool {
        let x = &self.socks[xi];
        // a send that reported an error is still a send: if the model gives it destinations (valid
        // address, flag enabled), they are owed the datagram
        if x.born_seq >= d.seq {
            return false;
        }
        let same = self.is_same_host(d, x);
        if !same && !self.cfg.healthy {
            return false;
        }
        let dl = self.deadline_step(d, same);
        if let Some((_, ds)) = x.dead {
            if ds <= dl + 1 {
                return false;
            }
        }
        let first = x.snaps.iter().rposition(|s| s.seq <= d.seq);
        let Some(first) = first else { return false };
        for s in &x.snaps[first..] {
            if s.seq > d.seq && s.step > dl + 1 {
                break;
            }
            if self.targets(d, x, &s.st) != Tri::Yes {
                return false;
            }
        }
        true
    }

    /// Upper bound on the number of other datagrams in x's queue when `d` arrives.
    fn depth_bound(&self, d: &SendRec, xi: usize, recv_step_of: &BTreeMap<(u16, usize), u32>) -> usize {
        let x = &self.socks[xi];
        let (amin, amax) = self.arrival_steps(d, self.is_same_host(d, x));
        let mut n = 0;
        for o in &self.sends {
            if o.id == d.id {
                continue;
            }
            // could o be routed to x at all?
            let mut could = false;
            for s in x.states_in(o.seq, u64::MAX) {
                if self.targets(o, x, &s.st) != Tri::No {
                    could = true;
                    break;
                }
            }
            if !could {
                continue;
            }
            let (omin, _) = self.arrival_steps(o, self.is_same_host(o, x));
            if omin > amax {
                continue; // arrives after d for sure
            }
            if let Some(rs) = recv_step_of.get(&(o.id, xi)) {
                if *rs < amin {
                    continue; // consumed before d can arrive
                }
            }
            n += 1;
        }
        n
    }

    /// History check. Returns the first violation (if any) and coverage statistics.
    pub fn judge(&self) -> (Option<Bad>, Stats) {
        let mut stats = Stats::default();
        let by_id: BTreeMap<u16, usize> = self.sends.iter().enumerate().map(|(i, d)| (d.id, i)).collect();
        // (datagram id, socket) -> number of unambiguous receives; step and seq of the first
        let mut got: BTreeMap<(u16, usize), (u32, u32, u64)> = BTreeMap::new();
        let mut recv_step_of: BTreeMap<(u16, usize), u32> = BTreeMap::new();
        // ambiguous receives per socket: (recv index, candidate send indices)
        let mut amb: BTreeMap<usize, Vec<(usize, Vec<usize>, Vec<usize>)>> = BTreeMap::new();

        for (ri, r) in self.recvs.iter().enumerate() {
            let Outcome::Data { len, origin, bytes } = &r.outcome else { continue };
            let x = &self.socks[r.sock];
            if *len != bytes.len() || *len > r.buf {
                return (Some(Bad { class: "Length", message: format!("{} received len={} into a {}-byte buffer ({} bytes filled)", x.name, len, r.buf, bytes.len()) }), stats);
            }
            if bytes.len() >= ID_LEN {
                let id = ((bytes[0] as u16) << 8) | bytes[1] as u16;
                let Some(&di) = by_id.get(&id) else {
                    return (Some(Bad { class: "NoSuchSend", message: format!("{} received a datagram with id {} that was never sent: {:?}", x.name, id, bytes) }), stats);
                };
                let d = &self.sends[di];
                if d.seq > r.seq {
                    return (Some(Bad { class: "NoSuchSend", message: format!("{} received datagram {} before it was sent", x.name, id) }), stats);
                }
                let want = payload(d.id, d.tag, d.len);
                let cut = d.len.min(r.buf);
                if *len != cut {
                    return (Some(Bad { class: "Length", message: format!("{} received datagram {} (sent with {} bytes) into a {}-byte buffer: len={} expected {}", x.name, id, d.len, r.buf, len, cut) }), stats);
                }
                if bytes[..] != want[..cut] {
                    return (Some(Bad { class: "PayloadAltered", message: format!("{} received datagram {}: bytes {:?} differ from the sent payload {:?}", x.name, id, bytes, &want[..cut]) }), stats);
                }
                if let Some(o) = origin {
                    let wo = self.origin(d);
                    if *o != wo {
                        return (
                            Some(Bad { class: "WrongOrigin", message: format!("{} received datagram {} (sent by {} to {}) with origin {} instead of {}", x.name, id, self.socks[d.sock].name, d.dst, o, wo) }),
                            stats,
                        );
                    }
                }
                match self.allowed_between(d, r.sock, r.seq) {
                    Tri::No => {
                        return (
                            Some(Bad {
                                class: if self.heir_of_member(d, r.sock) { "MisroutedToPortHeir" } else { "Misrouted" },
                                message: format!(
                                    "{} (state {:?}) received datagram {} sent by {} to {} ({:?}) although it was no destination of it at any instant between the send and the receive",
                                    x.name,
                                    x.states_in(d.seq, r.seq).last().map(|s| &s.st),
                                    id,
                                    self.socks[d.sock].name,
                                    d.dst,
                                    d.class
                                ),
                            }),
                            stats,
                        );
                    }
                    Tri::May => stats.may_receives += 1,
                    Tri::Yes => {}
                }
                // was x a destination at the send instant itself?
                let at_send = x.states_in(d.seq, d.seq).any(|s| self.targets(d, x, &s.st) != Tri::No);
                let at_recv = x.snaps.iter().rev().find(|s| s.seq <= r.seq).map(|s| self.targets(d, x, &s.st) != Tri::No).unwrap_or(false);
                if !at_send || !at_recv {
                    stats.received_after_leave_or_rebind_window += 1;
                }
                stats.allowed_receives += 1;
                if cut < d.len {
                    stats.truncated_receives += 1;
                }
                let e = got.entry((id, r.sock)).or_insert((0, r.step, r.seq));
                e.0 += 1;
                if e.0 > 1 {
                    return (Some(Bad { class: "Duplicate", message: format!("{} received datagram {} (sent by {} to {}) twice", x.name, id, self.socks[d.sock].name, d.dst) }), stats);
                }
                recv_step_of.insert((id, r.sock), r.step);
                // a blocking receive that waited must not complete after the deadline of an owed datagram
                if r.first_pending && r.ready_step > r.start_step {
                    let same = self.is_same_host(d, x);
                    if r.ready_step > self.deadline_step(d, same) && self.stable_yes(d, r.sock) && self.depth_bound(d, r.sock, &recv_step_of) < self.cfg.capacity {
                        return (
                            Some(Bad {
                                class: "Late",
                                message: format!("{} waited in recv_from since step {} and got datagram {} (sent in step {}) only in step {}, after the deadline step {}", x.name, r.start_step, id, d.step, r.ready_step, self.deadline_step(d, same)),
                            }),
                            stats,
                        );
                    }
                }
            } else {
                stats.ambiguous_receives += 1;
                let mut cands = Vec::new();
                let mut elsewhere = Vec::new();
                for (di, d) in self.sends.iter().enumerate() {
                    if d.seq > r.seq || d.len.min(r.buf) != *len {
                        continue;
                    }
                    let want = payload(d.id, d.tag, d.len);
                    if want[..*len] != bytes[..] {
                        continue;
                    }
                    if let Some(o) = origin {
                        if *o != self.origin(d) {
                            continue;
                        }
                    }
                    if self.allowed_between(d, r.sock, r.seq) == Tri::No {
                        elsewhere.push(di);
                        continue;
                    }
                    cands.push(di);
                }
                if cands.is_empty() && !elsewhere.is_empty() {
                    let d = &self.sends[elsewhere[0]];
                    return (
                        Some(Bad {
                            class: if elsewhere.iter().any(|di| self.heir_of_member(&self.sends[*di], r.sock)) { "MisroutedToPortHeir" } else { "Misrouted" },
                            message: format!(
                                "{} received {} byte(s) {:?} from {:?}: the only sends that can explain it (e.g. datagram {} sent by {} to {} ({:?})) never had this socket as a destination",
                                x.name, len, bytes, origin, d.id, self.socks[d.sock].name, d.dst, d.class
                            ),
                        }),
                        stats,
                    );
                }
                if cands.is_empty() {
                    return (
                        Some(Bad { class: "NoSuchSend", message: format!("{} received {} byte(s) {:?} from {:?} into a {}-byte buffer: no send can explain it", x.name, len, bytes, origin, r.buf) }),
                        stats,
                    );
                }
                amb.entry(r.sock).or_default().push((ri, cands, elsewhere));
            }
        }

        // "beyond the capacity are dropped": a datagram that certainly found the queue of x full — at least
        // capacity + 1 other datagrams (the + 1 is the one-datagram slot behind readable()) that certainly
        // arrived before it and were consumed only after its latest arrival step — must not be received
        for ((id, xi), _rs) in &recv_step_of {
            let d = &self.sends[by_id[id]];
            let x = &self.socks[*xi];
            let (dmin, dmax) = self.arrival_steps(d, self.is_same_host(d, x));
            let fixed = self.cfg.min_ticks == self.cfg.max_ticks;
            let mut floor = 0usize;
            for ((oid, oxi), ors) in &recv_step_of {
                if oxi != xi || oid == id {
                    continue;
                }
                let o = &self.sends[by_id[oid]];
                let (_, omax) = self.arrival_steps(o, self.is_same_host(o, x));
                let before = omax < dmin || (fixed && o.sock == d.sock && o.seq < d.seq && self.is_same_host(o, x) == self.is_same_host(d, x) && o.dst == d.dst);
                if before && *ors > dmax {
                    floor += 1;
                }
            }
            if floor > self.cfg.capacity {
                return (
                    Some(Bad {
                        class: "ReceivedBeyondCapacity",
                        message: format!(
                            "{} received datagram {} (sent in step {} by {}), although when it arrived (steps {}..{}) at least {} earlier datagrams were certainly still unread in its queue: the capacity is {} (+1 for the slot behind readable())",
                            x.name, id, d.step, self.socks[d.sock].name, dmin, dmax, floor, self.cfg.capacity
                        ),
                    }),
                    stats,
                );
            }
        }

        // ambiguous receives: at most one receive per (datagram, socket) => a matching must exist
        for (xi, list) in &amb {
            let mut match_of_send: BTreeMap<usize, usize> = BTreeMap::new();
            fn try_aug(k: usize, list: &[(usize, Vec<usize>, Vec<usize>)], taken: &BTreeSet<usize>, match_of_send: &mut BTreeMap<usize, usize>, seen: &mut BTreeSet<usize>) -> bool {
                for &di in &list[k].1 {
                    if taken.contains(&di) || !seen.insert(di) {
                        continue;
                    }
                    let cur = match_of_send.get(&di).copied();
                    if cur.is_none() || try_aug(cur.unwrap(), list, taken, match_of_send, seen) {
                        match_of_send.insert(di, k);
                        return true;
                    }
                }
                false
            }
            let taken: BTreeSet<usize> = got.keys().filter(|(_, s)| s == xi).map(|(id, _)| by_id[id]).collect();
            for k in 0..list.len() {
                let mut seen = BTreeSet::new();
                if !try_aug(k, list, &taken, &mut match_of_send, &mut seen) {
                    let r = &self.recvs[list[k].0];
                    if let Some(&di) = list[k].2.iter().find(|di| self.heir_of_member(&self.sends[**di], *xi)).or(list[k].2.first()) {
                        // every send that was allowed to reach this socket is accounted for; the datagram
                        // is better explained by a send that never had this socket as a destination
                        let d = &self.sends[di];
                        return (
                            Some(Bad {
                                class: if list[k].2.iter().any(|di| self.heir_of_member(&self.sends[*di], *xi)) { "MisroutedToPortHeir" } else { "Misrouted" },
                                message: format!(
                                    "{} received a short datagram at seq {} ({:?}) that matches no unreceived send addressed to it; it matches e.g. datagram {} sent by {} to {} ({:?}), which never had this socket as a destination",
                                    self.socks[*xi].name, r.seq, r.outcome, d.id, self.socks[d.sock].name, d.dst, d.class
                                ),
                            }),
                            stats,
                        );
                    }
                    // one receive too many among datagrams too short to tell apart: if any of this socket's short
                    // receives also matches a multicast datagram that was in flight to the previous holder of its
                    // port, that is the better explanation than a duplicate
                    if let Some(di) = list.iter().flat_map(|e| e.2.iter().copied()).find(|di| self.heir_of_member(&self.sends[*di], *xi)) {
                        let d = &self.sends[di];
                        return (
                            Some(Bad {
                                class: "MisroutedToPortHeir",
                                message: format!(
                                    "{} received one short datagram more than was sent to it (receive at seq {} ({:?}) cannot be matched to a distinct send); one of its short receives matches datagram {} sent by {} to {} ({:?}), which never had this socket as a destination",
                                    self.socks[*xi].name, r.seq, r.outcome, d.id, self.socks[d.sock].name, d.dst, d.class
                                ),
                            }),
                            stats,
                        );
                    }
                    return (
                        Some(Bad { class: "Duplicate", message: format!("{} received more short datagrams than were sent to it: receive at seq {} ({:?}) cannot be matched to a distinct send", self.socks[*xi].name, r.seq, r.outcome) }),
                        stats,
                    );
                }
            }
        }

        // fan-out statistics
        let mut per_d: BTreeMap<u16, u32> = BTreeMap::new();
        for (id, _) in got.keys() {
            *per_d.entry(*id).or_insert(0) += 1;
        }
        for (id, n) in &per_d {
            if *n >= 2 && matches!(self.sends[by_id[id]].class, Class::Broadcast | Class::Multicast(_)) {
                stats.fanout2 += 1;
            }
        }

        // owed datagrams: exactly one receive, visible whenever the socket observes an empty queue after the deadline
        let mut obs: BTreeMap<usize, Vec<(u64, u32)>> = BTreeMap::new();
        for r in &self.recvs {
            match &r.outcome {
                Outcome::Empty => obs.entry(r.sock).or_default().push((r.seq, r.step)),
                Outcome::Timeout if r.first_pending && r.ready_step > r.start_step => obs.entry(r.sock).or_default().push((r.seq, r.ready_step - 1)),
                Outcome::Data { .. } if r.first_pending && r.ready_step > r.start_step + 1 => obs.entry(r.sock).or_default().push((r.start_seq, r.ready_step - 1)),
                _ => {}
            }
        }
        for (xi, list) in &obs {
            stats.empty_observations += list.len() as u64;
            let x = &self.socks[*xi];
            let amb_cands: BTreeSet<usize> = amb.get(xi).map(|l| l.iter().flat_map(|(_, c, _)| c.iter().copied()).collect()).unwrap_or_default();
            let last = list.iter().max_by_key(|(_, st)| *st).copied().unwrap();
            for (di, d) in self.sends.iter().enumerate() {
                if amb_cands.contains(&di) || d.len < ID_LEN {
                    continue;
                }
                if !self.stable_yes(d, *xi) {
                    continue;
                }
                let same = self.is_same_host(d, x);
                let dl = self.deadline_step(d, same);
                let within_cap = self.depth_bound(d, *xi, &recv_step_of) < self.cfg.capacity;
                if within_cap {
                    stats.owed_pairs += 1;
                }
                // first empty observation after the deadline
                let Some((oseq, ostep)) = list.iter().filter(|(_, st)| *st > dl).min_by_key(|(s, _)| *s).copied() else { continue };
                let received_before = got.get(&(d.id, *xi)).map(|(_, _, rseq)| *rseq <= oseq).unwrap_or(false);
                if received_before {
                    continue;
                }
                if within_cap {
                    return (
                        Some(Bad {
                            class: "Lost",
                            message: format!(
                                "datagram {} sent in step {} by {} to {} ({:?}) is owed to {} (destination during the whole delivery window, healthy link, queue bound within capacity {}) but {} saw an empty queue in step {} (deadline step {}) without ever having received it",
                                d.id, d.step, self.socks[d.sock].name, d.dst, d.class, x.name, self.cfg.capacity, x.name, ostep, dl
                            ),
                        }),
                        stats,
                    );
                } else if last.1 > dl && !got.contains_key(&(d.id, *xi)) {
                    stats.overflow_loss_observed += 1;
                }
            }
            // owed datagrams too short to carry their id (0..2 bytes): a counting argument. At an empty
            // observation after their deadlines, the socket must have received at least as many datagrams
            // that *could* be one of them (same bytes up to the cut, compatible origin) as are owed; every
            // doubt (truncated longer datagrams with the same prefix, receives without origin) counts in
            // favour of the subject.
            let short_owed: Vec<&SendRec> = self.sends.iter().filter(|d| d.len < ID_LEN && self.stable_yes(d, *xi) && self.depth_bound(d, *xi, &recv_step_of) < self.cfg.capacity).collect();
            if !short_owed.is_empty() {
                stats.short_owed_pairs += short_owed.len() as u64;
                for (oseq, ostep) in list {
                    let mut groups: BTreeMap<(Vec<u8>, SocketAddr), Vec<&SendRec>> = BTreeMap::new();
                    for d in &short_owed {
                        if self.deadline_step(d, self.is_same_host(d, x)) < *ostep {
                            groups.entry((payload(d.id, d.tag, d.len), self.origin(d))).or_default().push(d);
                        }
                    }
                    for ((want, org), ds) in &groups {
                        let have = self
                            .recvs
                            .iter()
                            .filter(|r| r.sock == *xi && r.seq <= *oseq)
                            .filter(|r| match &r.outcome {
                                Outcome::Data { bytes, origin, .. } => bytes.len() <= want.len() && bytes[..] == want[..bytes.len()] && origin.map(|o| o == *org).unwrap_or(true),
                                _ => false,
                            })
                            .count();
                        if have < ds.len() {
                            let d = ds[0];
                            return (
                                Some(Bad {
                                    class: "Lost",
                                    message: format!(
                                        "{} short datagram(s) of {} byte(s) {:?} from {} (e.g. datagram {} sent in step {} by {} to {} ({:?})) are owed to {} (destination during the whole delivery window, healthy link, queue bound within capacity {}), but when {} saw an empty queue in step {} it had received only {} datagram(s) that could be one of them",
                                        ds.len(), want.len(), want, org, d.id, d.step, self.socks[d.sock].name, d.dst, d.class, x.name, self.cfg.capacity, x.name, ostep, have
                                    ),
                                }),
                                stats,
                            );
                        }
                    }
                }
            }
        }
        // datagrams that had no destination at all and were (correctly) seen by nobody
        for d in &self.sends {
            if d.ok && !per_d.contains_key(&d.id) && (0..self.socks.len()).all(|xi| self.allowed_between(d, xi, u64::MAX) == Tri::No) {
                stats.not_delivered_unbound_or_filtered += 1;
            }
        }
        (None, stats)
    }
}

#[cfg(test)]
mod tests {
    use super::*;

    fn model(cap: usize) -> Model {
        Model::new(vec!["192.168.0.1".parse().unwrap(), "192.168.0.2".parse().unwrap()], NetCfg { capacity: cap, min_ticks: 1, max_ticks: 2, healthy: true })
    }
    fn data(m: &Model, id: u16, buf: usize, origin: &str) -> Outcome {
        let d = m.sends.iter().find(|d| d.id == id).unwrap();
        let p = payload(d.id, d.tag, d.len);
        let n = p.len().min(buf);
        Outcome::Data { len: n, origin: Some(origin.parse().unwrap()), bytes: p[..n].to_vec() }
    }
    fn rcv(sock: usize, seq: u64, step: u32, buf: usize, o: Outcome) -> RecvRec {
        RecvRec { start_seq: seq, start_step: step, seq, step, ready_step: step, sock, buf, first_pending: false, outcome: o }
    }

    #[test]
    fn unicast_ok_and_duplicate() {
        let mut m = model(8);
        let a = m.bind(1, 1, 0, "a".into(), false, 9000);
        let b = m.bind(2, 1, 1, "b".into(), false, 9001);
        m.send(3, 1, a, 7, 1, "192.168.0.2:9001".parse().unwrap(), 10, true);
        let o = data(&m, 7, 64, "192.168.0.1:9000");
        m.recv(rcv(b, 4, 3, 64, o.clone()));
        assert_eq!(m.judge().0, None);
        m.recv(rcv(b, 5, 3, 64, o));
        assert_eq!(m.judge().0.unwrap().class, "Duplicate");
    }

    #[test]
    fn localhost_bound_gets_nothing_from_remote_and_filter_is_respected() {
        let mut m = model(8);
        let a = m.bind(1, 1, 0, "a".into(), false, 9000);
        let b = m.bind(2, 1, 1, "b".into(), true, 9001);
        m.send(3, 1, a, 7, 1, "192.168.0.2:9001".parse().unwrap(), 10, true);
        let o = data(&m, 7, 64, "192.168.0.1:9000");
        m.recv(rcv(b, 4, 3, 64, o));
        assert_eq!(m.judge().0.unwrap().class, "Misrouted");

        let mut m = model(8);
        let a = m.bind(1, 1, 0, "a".into(), false, 9000);
        let b = m.bind(2, 1, 1, "b".into(), false, 9001);
        m.connect(b, 3, 1, "192.168.0.1:9999".parse().unwrap());
        m.send(4, 1, a, 7, 1, "192.168.0.2:9001".parse().unwrap(), 10, true);
        let o = data(&m, 7, 64, "192.168.0.1:9000");
        m.recv(rcv(b, 5, 3, 64, o));
        assert_eq!(m.judge().0.unwrap().class, "Misrouted");
    }

    #[test]
    fn truncation_origin_and_loss() {
        let mut m = model(8);
        let a = m.bind(1, 1, 0, "a".into(), false, 9000);
        let b = m.bind(2, 1, 1, "b".into(), false, 9001);
        m.send(3, 1, a, 7, 1, "192.168.0.2:9001".parse().unwrap(), 10, true);
        m.recv(rcv(b, 4, 3, 5, data(&m, 7, 5, "192.168.0.1:9000")));
        assert_eq!(m.judge().0, None);
        let mut m2 = model(8);
        let a = m2.bind(1, 1, 0, "a".into(), false, 9000);
        let b = m2.bind(2, 1, 1, "b".into(), false, 9001);
        m2.send(3, 1, a, 7, 1, "192.168.0.2:9001".parse().unwrap(), 10, true);
        m2.recv(rcv(b, 4, 3, 64, data(&m2, 7, 64, "192.168.0.2:9000")));
        assert_eq!(m2.judge().0.unwrap().class, "WrongOrigin");
        // never received, empty queue seen after the deadline (step 1 + 2 + 2 = 5)
        let mut m3 = model(8);
        let a = m3.bind(1, 1, 0, "a".into(), false, 9000);
        let b = m3.bind(2, 1, 1, "b".into(), false, 9001);
        m3.send(3, 1, a, 7, 1, "192.168.0.2:9001".parse().unwrap(), 10, true);
        m3.recv(rcv(b, 4, 5, 64, Outcome::Empty));
        assert_eq!(m3.judge().0, None);
        m3.recv(rcv(b, 5, 6, 64, Outcome::Empty));
        assert_eq!(m3.judge().0.unwrap().class, "Lost");
    }

    #[test]
    fn capacity_bound_excuses_loss() {
        let mut m = model(1);
        let a = m.bind(1, 1, 0, "a".into(), false, 9000);
        let b = m.bind(2, 1, 1, "b".into(), false, 9001);
        m.send(3, 1, a, 7, 1, "192.168.0.2:9001".parse().unwrap(), 10, true);
        m.send(4, 1, a, 8, 1, "192.168.0.2:9001".parse().unwrap(), 10, true);
        m.recv(rcv(b, 5, 9, 64, data(&m, 7, 64, "192.168.0.1:9000")));
        m.recv(rcv(b, 6, 9, 64, Outcome::Empty));
        let (bad, st) = m.judge();
        assert_eq!(bad, None);
        assert_eq!(st.overflow_loss_observed, 1);
    }

    #[test]
    fn multicast_members_only_and_broadcast_needs_flag() {
        let g: IpAddr = "239.0.0.1".parse().unwrap();
        let mut m = model(8);
        let a = m.bind(1, 1, 0, "a".into(), false, 9000);
        let b = m.bind(2, 1, 1, "b".into(), false, 9001);
        m.send(3, 1, a, 7, 1, SocketAddr::new(g, 9001), 10, true);
        m.recv(rcv(b, 4, 3, 64, data(&m, 7, 64, "192.168.0.1:9000")));
        assert_eq!(m.judge().0.unwrap().class, "Misrouted");
        let mut m = model(8);
        let a = m.bind(1, 1, 0, "a".into(), false, 9000);
        let b = m.bind(2, 1, 1, "b".into(), false, 9001);
        m.join(b, 3, 1, g);
        m.send(4, 1, a, 7, 1, SocketAddr::new(g, 9001), 10, true);
        m.leave(b, 5, 2, g);
        m.recv(rcv(b, 6, 3, 64, data(&m, 7, 64, "192.168.0.1:9000")));
        assert_eq!(m.judge().0, None);
        // broadcast without the flag
        let mut m = model(8);
        let a = m.bind(1, 1, 0, "a".into(), false, 9000);
        let b = m.bind(2, 1, 1, "b".into(), false, 9001);
        m.send(3, 1, a, 7, 1, "255.255.255.255:9001".parse().unwrap(), 10, false);
        m.recv(rcv(b, 4, 3, 64, data(&m, 7, 64, "192.168.0.1:9000")));
        assert_eq!(m.judge().0.unwrap().class, "Misrouted");
    }

    #[test]
    fn short_datagrams_are_matched() {
        let mut m = model(8);
        let a = m.bind(1, 1, 0, "a".into(), false, 9000);
        let b = m.bind(2, 1, 1, "b".into(), false, 9001);
        m.send(3, 1, a, 7, 1, "192.168.0.2:9001".parse().unwrap(), 0, true);
        let o = Outcome::Data { len: 0, origin: Some("192.168.0.1:9000".parse().unwrap()), bytes: vec![] };
        m.recv(rcv(b, 4, 3, 64, o.clone()));
        assert_eq!(m.judge().0, None);
        m.recv(rcv(b, 5, 3, 64, o));
        assert_eq!(m.judge().0.unwrap().class, "Duplicate");
    }
}
