//! simkit::links — shared workload, driver and link-model helpers for the link properties
//! C14 (latency window / order), C03 (explicit partitions) and C08 (hold / release / manual delivery).
//!
//! A `Net` is pure data: builder configuration, numbered UDP bursts, TCP connections (connect, framed
//! single-segment messages in both directions, FINs), actions issued from inside host programs at
//! virtual instants and a controller script executed between `Sim::step` calls. `execute` builds a
//! real `turmoil::Sim`, runs the hosts' generic program and the controller, and returns the ordered
//! list of observations (`Ev`), every one stamped with the global event sequence number of the
//! shared log, the step it happened in and the virtual instant of the actor.
//!
//! The second half holds what the three oracles share: selector resolution (the same host sets the
//! subject is given, computed independently), the "moment of a call" in both readings, the per-link
//! effective latency timeline and the message index (send / receipts per message).

use crate::core::{catch, Log};
use crate::simkit::{us, SharedLog, SimCfg};
use serde::{Deserialize, Serialize};
use std::cell::{Cell, RefCell};
use std::collections::BTreeMap;
use std::net::{IpAddr, Ipv4Addr, Ipv6Addr, SocketAddr};
use std::rc::Rc;
use std::time::Duration;
use tokio::io::{AsyncReadExt, AsyncWriteExt};
use turmoil::net::tcp::{OwnedReadHalf, OwnedWriteHalf};
use turmoil::net::{TcpListener, TcpStream, UdpSocket};
use turmoil::{Protocol, Segment, Sim};

pub const UDP_PORT: u16 = 9000;
pub const TCP_PORT: u16 = 9100;
pub const FRAME: usize = 16;
const TAG_UDP: u8 = 0xD6;
const TAG_TCP: u8 = 0xC5;

// ------------------------------------------------------------------------------------------------
// scenario data

/// How a set of hosts is named in a fault call.
#[derive(Clone, Debug, Serialize, Deserialize, PartialEq, Eq)]
pub enum Sel {
    /// by host name ("h2")
    Name(usize),
    /// by IP literal given as a string ("192.168.0.3")
    IpStr(usize),
    /// by `IpAddr` value
    Ip(usize),
    /// by regex `^h[02]$`
    Set(Vec<usize>),
    /// by regex `.*`
    All,
}

impl Sel {
    pub fn hosts(&self, n: usize) -> Vec<usize> {
        match self {
            Sel::Name(i) | Sel::IpStr(i) | Sel::Ip(i) => vec![*i],
            Sel::Set(v) => {
                // regex resolution walks the DNS table in registration order
                let mut v: Vec<usize> = v.iter().copied().filter(|i| *i < n).collect();
                v.sort();
                v.dedup();
                v
            }
            Sel::All => (0..n).collect(),
        }
    }
    pub fn is_single(&self) -> bool {
        matches!(self, Sel::Name(_) | Sel::IpStr(_) | Sel::Ip(_))
    }
    pub fn max_host(&self) -> usize {
        match self {
            Sel::Name(i) | Sel::IpStr(i) | Sel::Ip(i) => *i,
            Sel::Set(v) => v.iter().copied().max().unwrap_or(0),
            Sel::All => 0,
        }
    }
}

#[derive(Clone, Debug, Serialize, Deserialize, PartialEq, Eq)]
pub enum Act {
    Partition(Sel, Sel),
    PartitionOneway(Sel, Sel),
    Repair(Sel, Sel),
    RepairOneway(Sel, Sel),
    Hold(Sel, Sel),
    Release(Sel, Sel),
    /// controller only: Sim::set_link_latency (fixed latency, microseconds)
    SetLinkLatency(Sel, Sel, u64),
    /// controller only: Sim::set_link_max_message_latency
    SetLinkMaxLatency(Sel, Sel, u64),
    /// controller only: Sim::set_max_message_latency (global)
    SetGlobalMax(u64),
    /// controller only: Sim::set_message_latency_curve (lambda * 1000)
    SetCurve(u64),
    /// controller only: Sim::set_link_fail_rate(a, b, 0.0) — the link stays as healthy as it was; no
    /// latency setting may change through it
    SetLinkFailRateZero(Sel, Sel),
    /// controller only: Sim::set_fail_rate(0.0)
    SetFailRateZero,
    /// controller only: record what Sim::links lists
    Sample,
    /// controller only: remember the messages currently listed on the link a-b (ranks for `Deliver`)
    Mark(usize, usize),
    /// controller only: SentRef::deliver on the rank-th message of the last `Mark` of that link
    Deliver { a: usize, b: usize, rank: usize },
    /// controller only: LinkIter::deliver_all on the link a-b
    DeliverAll(usize, usize),
    /// several calls back to back: from the Sim handle with no step in between, from host code
    /// within one poll (no await, no other send in between)
    Seq(Vec<Act>),
}

impl Act {
    pub fn kind(&self) -> &'static str {
        match self {
            Act::Partition(..) => "partition",
            Act::PartitionOneway(..) => "partition_oneway",
            Act::Repair(..) => "repair",
            Act::RepairOneway(..) => "repair_oneway",
            Act::Hold(..) => "hold",
            Act::Release(..) => "release",
            Act::SetLinkLatency(..) => "set_link_latency",
            Act::SetLinkMaxLatency(..) => "set_link_max_message_latency",
            Act::SetLinkFailRateZero(..) => "set_link_fail_rate_zero",
            Act::SetFailRateZero => "set_fail_rate_zero",
            Act::SetGlobalMax(..) => "set_max_message_latency",
            Act::SetCurve(..) => "set_message_latency_curve",
            Act::Sample => "links_sample",
            Act::Mark(..) => "links_mark",
            Act::Deliver { .. } => "deliver",
            Act::DeliverAll(..) => "deliver_all",
            Act::Seq(..) => "seq",
        }
    }
    pub fn sels(&self) -> Option<(&Sel, &Sel)> {
        match self {
            Act::Partition(a, b)
            | Act::PartitionOneway(a, b)
            | Act::Repair(a, b)
            | Act::RepairOneway(a, b)
            | Act::Hold(a, b)
            | Act::Release(a, b)
            | Act::SetLinkLatency(a, b, _)
            | Act::SetLinkFailRateZero(a, b)
            | Act::SetLinkMaxLatency(a, b, _) => Some((a, b)),
            _ => None,
        }
    }
    fn sels_mut(&mut self) -> Option<(&mut Sel, &mut Sel)> {
        match self {
            Act::Partition(a, b)
            | Act::PartitionOneway(a, b)
            | Act::Repair(a, b)
            | Act::RepairOneway(a, b)
            | Act::Hold(a, b)
            | Act::Release(a, b)
            | Act::SetLinkLatency(a, b, _)
            | Act::SetLinkFailRateZero(a, b)
            | Act::SetLinkMaxLatency(a, b, _) => Some((a, b)),
            _ => None,
        }
    }
    /// Ordered host pairs (x, y), x != y, the call is applied to — what `for_pairs` does.
    pub fn pairs(&self, n: usize) -> Vec<(usize, usize)> {
        match self.sels() {
            Some((a, b)) => pairs_of(a, b, n),
            None => Vec::new(),
        }
    }
    pub fn uses_sets(&self) -> bool {
        self.sels().map(|(a, b)| !a.is_single() || !b.is_single()).unwrap_or(false)
    }
    pub fn max_host(&self) -> usize {
        match self {
            Act::Mark(a, b) | Act::DeliverAll(a, b) | Act::Deliver { a, b, .. } => *a.max(b),
            Act::Seq(v) => v.iter().map(|a| a.max_host()).max().unwrap_or(0),
            _ => self.sels().map(|(a, b)| a.max_host().max(b.max_host())).unwrap_or(0),
        }
    }
}

pub fn pairs_of(a: &Sel, b: &Sel, n: usize) -> Vec<(usize, usize)> {
    let mut out = Vec::new();
    for x in a.hosts(n) {
        for y in b.hosts(n) {
            if x != y {
                out.push((x, y));
            }
        }
    }
    out
}

#[derive(Clone, Debug, Serialize, Deserialize, PartialEq)]
pub struct UdpBurst {
    pub from: usize,
    pub to: usize,
    pub at_ms: u64,
    pub count: u32,
    /// address the peer by IP instead of by name
    pub by_ip: bool,
}

#[derive(Clone, Debug, Serialize, Deserialize, PartialEq)]
pub struct Conn {
    pub from: usize,
    pub to: usize,
    /// instant of the connect call
    pub at_ms: u64,
    /// (at_ms, count): frames the connector writes (after the implicit hello frame, seq 0)
    pub c2s: Vec<(u64, u32)>,
    /// frames the acceptor writes (not before it has read the hello frame)
    pub s2c: Vec<(u64, u32)>,
    /// connector / acceptor shut their write side down at this instant
    pub fin_c: Option<u64>,
    pub fin_s: Option<u64>,
    pub by_ip: bool,
    /// the connector drops its whole stream (both halves, whatever is unread) at this instant
    #[serde(default)]
    pub drop_c: Option<u64>,
}

#[derive(Clone, Debug, Serialize, Deserialize, PartialEq)]
pub struct HostAct {
    pub host: usize,
    pub at_ms: u64,
    pub act: Act,
}

#[derive(Clone, Debug, Serialize, Deserialize, PartialEq)]
pub struct Net {
    pub cfg: SimCfg,
    pub hosts: usize,
    pub udp: Vec<UdpBurst>,
    pub conns: Vec<Conn>,
    /// actions issued from inside host programs (partition / repair / hold / release free functions)
    pub hacts: Vec<HostAct>,
    /// (before step s, action) — the controller
    pub script: Vec<(u32, Act)>,
    pub steps: u32,
    /// sample Sim::links before and after every controller action
    pub sample_links: bool,
    /// connects to a port nobody listens on: the destination's stack answers the SYN with a RST, a
    /// message that no application sent
    #[serde(default)]
    pub probes: Vec<DeadProbe>,
    /// non-empty: the hosts are registered by IP literal in this order (no DNS names exist then; every place
    /// that would name a host uses the literal), so that a link's earlier-registered end may have the larger address
    #[serde(default)]
    pub literal_order: Vec<usize>,
}

#[derive(Clone, Debug, Serialize, Deserialize, PartialEq)]
pub struct DeadProbe {
    pub from: usize,
    pub to: usize,
    pub at_ms: u64,
}

pub const DEAD_PORT: u16 = 7999;

pub fn host_name(i: usize) -> String {
    format!("h{i}")
}

thread_local! {
    /// (literal mode, ipv6) of the execution running on this thread
    static LITERAL: Cell<(bool, bool)> = const { Cell::new((false, false)) };
}

/// What host code and fault calls use where they would use the host's name.
fn host_ref(i: usize) -> String {
    let (lit, v6) = LITERAL.with(|l| l.get());
    if lit {
        host_ip(i, v6).to_string()
    } else {
        host_name(i)
    }
}

pub fn host_ip(i: usize, v6: bool) -> IpAddr {
    if v6 {
        IpAddr::V6(Ipv6Addr::new(0xfe80, 0, 0, 0, 0, 0, 0, i as u16 + 1))
    } else {
        IpAddr::V4(Ipv4Addr::new(192, 168, 0, i as u8 + 1))
    }
}

// ------------------------------------------------------------------------------------------------
// observations

#[derive(Clone, Copy, Debug, PartialEq, Eq, Hash, PartialOrd, Ord)]
pub enum Msg {
    Udp { from: u8, to: u8, seq: u32 },
    Syn { conn: u16 },
    /// dir 0 = connector to acceptor, 1 = acceptor to connector
    Data { conn: u16, dir: u8, seq: u32 },
    Fin { conn: u16, dir: u8 },
}

#[derive(Clone, Copy, Debug, PartialEq, Eq, PartialOrd, Ord)]
pub enum ListedKind {
    Udp,
    Syn,
    Data(u64),
    Fin(u64),
    Rst,
}

/// One entry of the `Sim::links` iterator as the controller saw it.
#[derive(Clone, Copy, Debug, PartialEq, Eq, PartialOrd, Ord)]
pub struct Listed {
    pub src_host: usize,
    pub src_port: u16,
    pub dst_host: usize,
    pub dst_port: u16,
    pub kind: ListedKind,
    /// identity decoded from the payload (datagrams and data segments)
    pub msg: Option<Msg>,
}

#[derive(Clone, Debug, PartialEq, Eq)]
pub struct LinkSnap {
    pub a: usize,
    pub b: usize,
    pub msgs: Vec<Listed>,
}

#[derive(Clone, Debug, PartialEq, Eq)]
pub enum EvKind {
    Send(Msg),
    Recv(Msg),
    ConnOk { conn: u16, port: u16 },
    ConnErr { conn: u16, kind: String },
    /// at the acceptor (`host`): accepted a connection from (from, port)
    Accept { from: usize, port: u16 },
    Act(Act),
    Links(Vec<LinkSnap>),
    /// manual delivery of one listed message (found = it was still listed)
    Deliver { a: usize, b: usize, rank: usize, what: Option<Listed> },
    IoErr(String),
    /// a connect to DEAD_PORT of host `to` was started / ended with this error kind (None = Ok)
    /// the connector of `conn` dropped its stream
    Dropped { conn: u16 },
    ProbeSent { id: usize, to: usize },
    ProbeResult { id: usize, to: usize, err: Option<String> },
}

#[derive(Clone, Debug)]
pub struct Ev {
    /// global event sequence number (shared log)
    pub seq: u64,
    /// host events: the step during which it happened (1-based); controller events: number of steps completed
    pub step: u32,
    /// host events: the host's sim_elapsed (us); controller events: Sim::elapsed (us)
    pub t: u64,
    /// None = the controller
    pub host: Option<usize>,
    pub kind: EvKind,
}

pub struct Trace {
    pub evs: Vec<Ev>,
    pub steps_done: u32,
    /// a panic of the subject (message @ location)
    pub panic: Option<String>,
    pub step_err: Option<String>,
    pub harness_error: Option<String>,
}

fn enc_udp(from: usize, to: usize, seq: u32, t: u64) -> [u8; FRAME] {
    let mut f = [0u8; FRAME];
    f[0] = TAG_UDP;
    f[1] = from as u8;
    f[2] = to as u8;
    f[4..8].copy_from_slice(&seq.to_le_bytes());
    f[8..16].copy_from_slice(&t.to_le_bytes());
    f
}

fn enc_tcp(conn: u16, dir: u8, seq: u32, t: u64) -> [u8; FRAME] {
    let mut f = [0u8; FRAME];
    f[0] = TAG_TCP;
    f[1] = dir;
    f[2..4].copy_from_slice(&conn.to_le_bytes());
    f[4..8].copy_from_slice(&seq.to_le_bytes());
    f[8..16].copy_from_slice(&t.to_le_bytes());
    f
}

fn decode(f: &[u8]) -> Option<Msg> {
    if f.len() != FRAME {
        return None;
    }
    let seq = u32::from_le_bytes(f[4..8].try_into().unwrap());
    match f[0] {
        TAG_UDP => Some(Msg::Udp { from: f[1], to: f[2], seq }),
        TAG_TCP => Some(Msg::Data { conn: u16::from_le_bytes(f[2..4].try_into().unwrap()), dir: f[1], seq }),
        _ => None,
    }
}

// ------------------------------------------------------------------------------------------------
// selector plumbing: the subject takes `impl ToIpAddrs`, so every combination is spelled out

enum R {
    S(String),
    I(IpAddr),
    Re(regex::Regex),
}

fn resolve(sel: &Sel, v6: bool) -> R {
    match sel {
        Sel::Name(i) => R::S(host_ref(*i)),
        Sel::IpStr(i) => R::S(host_ip(*i, v6).to_string()),
        Sel::Ip(i) => R::I(host_ip(*i, v6)),
        Sel::Set(v) => {
            let mut v = v.clone();
            v.sort();
            v.dedup();
            let digits: String = v.iter().map(|i| i.to_string()).collect();
            // the same host set written in different ways: anchored class, a pattern that matches only a fragment of
            // each name, an unanchored alternation of the names (host names are h0..h3)
            let form = (v.iter().sum::<usize>() + v.len()) % 3;
            let re = match form {
                0 => format!("^h[{digits}]$"),
                1 => format!("[{digits}]"),
                _ => v.iter().map(|i| format!("h{i}")).collect::<Vec<_>>().join("|"),
            };
            R::Re(regex::Regex::new(&re).expect("regex"))
        }
        Sel::All => R::Re(regex::Regex::new(".*").expect("regex")),
    }
}

macro_rules! with2 {
    ($ra:expr, $rb:expr, |$x:ident, $y:ident| $body:expr) => {
        match ($ra, $rb) {
            (R::S($x), R::S($y)) => $body,
            (R::S($x), R::I($y)) => $body,
            (R::S($x), R::Re($y)) => $body,
            (R::I($x), R::S($y)) => $body,
            (R::I($x), R::I($y)) => $body,
            (R::I($x), R::Re($y)) => $body,
            (R::Re($x), R::S($y)) => $body,
            (R::Re($x), R::I($y)) => $body,
            (R::Re($x), R::Re($y)) => $body,
        }
    };
}

/// The fault calls available as free functions inside host code.
fn apply_from_host(act: &Act, v6: bool) -> Result<(), String> {
    match act {
        Act::Partition(a, b) => with2!(resolve(a, v6), resolve(b, v6), |x, y| turmoil::partition(x, y)),
        Act::PartitionOneway(a, b) => with2!(resolve(a, v6), resolve(b, v6), |x, y| turmoil::partition_oneway(x, y)),
        Act::Repair(a, b) => with2!(resolve(a, v6), resolve(b, v6), |x, y| turmoil::repair(x, y)),
        Act::RepairOneway(a, b) => with2!(resolve(a, v6), resolve(b, v6), |x, y| turmoil::repair_oneway(x, y)),
        Act::Hold(a, b) => with2!(resolve(a, v6), resolve(b, v6), |x, y| turmoil::hold(x, y)),
        Act::Release(a, b) => with2!(resolve(a, v6), resolve(b, v6), |x, y| turmoil::release(x, y)),
        other => return Err(format!("action {} cannot be issued from host code", other.kind())),
    }
    Ok(())
}

// ------------------------------------------------------------------------------------------------
// execution

#[derive(Clone)]
struct Ctx {
    net: Rc<Net>,
    log: SharedLog,
    evs: Rc<RefCell<Vec<Ev>>>,
    step: Rc<Cell<u32>>,
    /// next datagram number per (from, to)
    udp_seq: Rc<RefCell<Vec<u32>>>,
    ips: Rc<Vec<IpAddr>>,
}

impl Ctx {
    fn ev(&self, host: Option<usize>, t: u64, kind: EvKind) {
        let step = self.step.get();
        let who = match host {
            Some(h) => format!("h{h}"),
            None => "ctl".to_string(),
        };
        let seq = self.log.ev(format!("step={step} t={t} {who} {kind:?}"));
        self.evs.borrow_mut().push(Ev { seq, step, t, host, kind });
    }
    fn host_of(&self, ip: IpAddr) -> usize {
        self.ips.iter().position(|x| *x == ip).unwrap_or(usize::MAX)
    }
}

fn hnow() -> u64 {
    turmoil::sim_elapsed().map(us).unwrap_or(u64::MAX)
}

async fn sleep_until_ms(at_ms: u64) {
    let now = turmoil::elapsed();
    let at = Duration::from_millis(at_ms);
    if at > now {
        tokio::time::sleep(at - now).await;
    }
}

async fn udp_rx(ctx: Ctx, me: usize, sock: Rc<UdpSocket>) {
    let mut buf = [0u8; 64];
    // the receive path is scenario data (two bits of the builder seed per host): plain recv_from,
    // readable() followed by recv_from, or readable() followed by try_recv_from
    let path = (ctx.net.cfg.rng_seed >> (2 * (me % 16))) & 3;
    loop {
        let got = match path {
            1 => match sock.readable().await {
                Ok(()) => sock.recv_from(&mut buf).await,
                Err(e) => Err(e),
            },
            2 => match sock.readable().await {
                Ok(()) => match sock.try_recv_from(&mut buf) {
                    Err(e) if e.kind() == std::io::ErrorKind::WouldBlock => {
                        ctx.ev(Some(me), hnow(), EvKind::IoErr("readable() resolved but try_recv_from found nothing".into()));
                        continue;
                    }
                    r => r,
                },
                Err(e) => Err(e),
            },
            _ => sock.recv_from(&mut buf).await,
        };
        match got {
            Ok((n, origin)) => match decode(&buf[..n]) {
                Some(m @ Msg::Udp { from, .. }) => {
                    if ctx.host_of(origin.ip()) != from as usize || origin.port() != UDP_PORT {
                        ctx.ev(Some(me), hnow(), EvKind::IoErr(format!("datagram {m:?} arrived with origin {origin}")));
                    }
                    ctx.ev(Some(me), hnow(), EvKind::Recv(m));
                }
                _ => ctx.ev(Some(me), hnow(), EvKind::IoErr(format!("undecodable datagram of {n} bytes from {origin}"))),
            },
            Err(e) => {
                ctx.ev(Some(me), hnow(), EvKind::IoErr(format!("udp recv: {:?}", e.kind())));
                break;
            }
        }
    }
}

async fn udp_tx(ctx: Ctx, me: usize, b: UdpBurst, sock: Rc<UdpSocket>) {
    sleep_until_ms(b.at_ms).await;
    let n = ctx.net.hosts;
    for _ in 0..b.count {
        let seq = {
            let mut s = ctx.udp_seq.borrow_mut();
            let k = &mut s[me * n + b.to];
            *k += 1;
            *k - 1
        };
        let t = hnow();
        ctx.ev(Some(me), t, EvKind::Send(Msg::Udp { from: me as u8, to: b.to as u8, seq }));
        let frame = enc_udp(me, b.to, seq, t);
        let r = if b.by_ip {
            sock.send_to(&frame, SocketAddr::new(ctx.ips[b.to], UDP_PORT)).await
        } else {
            sock.send_to(&frame, (host_ref(b.to), UDP_PORT)).await
        };
        if let Err(e) = r {
            ctx.ev(Some(me), hnow(), EvKind::IoErr(format!("udp send: {:?}", e.kind())));
        }
    }
}

async fn read_frame(r: &mut OwnedReadHalf) -> std::io::Result<Option<[u8; FRAME]>> {
    let mut buf = [0u8; FRAME];
    let mut got = 0;
    while got < FRAME {
        let n = r.read(&mut buf[got..]).await?;
        if n == 0 {
            return if got == 0 { Ok(None) } else { Err(std::io::ErrorKind::UnexpectedEof.into()) };
        }
        got += n;
    }
    Ok(Some(buf))
}

/// Reads frames of direction `dir` of connection `conn` until EOF or error.
async fn read_loop(ctx: Ctx, me: usize, mut r: OwnedReadHalf, conn: u16, dir: u8) {
    loop {
        match read_frame(&mut r).await {
            Ok(Some(f)) => match decode(&f) {
                Some(m @ Msg::Data { conn: c, dir: d, .. }) if c == conn && d == dir => ctx.ev(Some(me), hnow(), EvKind::Recv(m)),
                other => ctx.ev(Some(me), hnow(), EvKind::IoErr(format!("conn {conn} dir {dir}: unexpected frame {other:?}"))),
            },
            Ok(None) => {
                ctx.ev(Some(me), hnow(), EvKind::Recv(Msg::Fin { conn, dir }));
                break;
            }
            Err(e) => {
                ctx.ev(Some(me), hnow(), EvKind::IoErr(format!("conn {conn} dir {dir} read: {:?}", e.kind())));
                break;
            }
        }
    }
    // keep the half alive: dropping it could emit segments the scenario did not ask for
    std::future::pending::<()>().await;
}

async fn write_loop(ctx: Ctx, me: usize, mut w: OwnedWriteHalf, conn: u16, dir: u8, hello: bool, ops: Vec<(u64, u32)>, fin: Option<u64>) {
    let mut seq = 0u32;
    let mut plan: Vec<(u64, Option<u32>)> = ops.iter().map(|(at, c)| (*at, Some(*c))).collect();
    if let Some(f) = fin {
        plan.push((f, None));
    }
    plan.sort_by_key(|(at, what)| (*at, what.is_none()));
    if hello {
        plan.insert(0, (0, Some(1)));
    }
    'outer: for (at, what) in plan {
        sleep_until_ms(at).await;
        match what {
            Some(count) => {
                for _ in 0..count {
                    let t = hnow();
                    ctx.ev(Some(me), t, EvKind::Send(Msg::Data { conn, dir, seq }));
                    if let Err(e) = w.write_all(&enc_tcp(conn, dir, seq, t)).await {
                        ctx.ev(Some(me), hnow(), EvKind::IoErr(format!("conn {conn} dir {dir} write: {:?}", e.kind())));
                        break 'outer;
                    }
                    seq += 1;
                }
            }
            None => {
                ctx.ev(Some(me), hnow(), EvKind::Send(Msg::Fin { conn, dir }));
                if let Err(e) = w.shutdown().await {
                    ctx.ev(Some(me), hnow(), EvKind::IoErr(format!("conn {conn} dir {dir} shutdown: {:?}", e.kind())));
                }
                break;
            }
        }
    }
    std::future::pending::<()>().await;
}

async fn client_conn(ctx: Ctx, me: usize, id: u16, c: Conn) {
    sleep_until_ms(c.at_ms).await;
    ctx.ev(Some(me), hnow(), EvKind::Send(Msg::Syn { conn: id }));
    let res = if c.by_ip {
        TcpStream::connect(SocketAddr::new(ctx.ips[c.to], TCP_PORT)).await
    } else {
        TcpStream::connect((host_ref(c.to), TCP_PORT)).await
    };
    match res {
        Ok(s) => {
            let port = s.local_addr().map(|a| a.port()).unwrap_or(0);
            ctx.ev(Some(me), hnow(), EvKind::ConnOk { conn: id, port });
            let (r, w) = s.into_split();
            let reader = tokio::task::spawn_local(read_loop(ctx.clone(), me, r, id, 1));
            match c.drop_c {
                None => write_loop(ctx, me, w, id, 0, true, c.c2s.clone(), c.fin_c).await,
                Some(at) => {
                    tokio::select! {
                        _ = write_loop(ctx.clone(), me, w, id, 0, true, c.c2s.clone(), c.fin_c) => {}
                        _ = sleep_until_ms(at) => {}
                    }
                    // the write half is gone with the select; the read half goes with its task
                    reader.abort();
                    let _ = reader.await;
                    ctx.ev(Some(me), hnow(), EvKind::Dropped { conn: id });
                }
            }
        }
        Err(e) => ctx.ev(Some(me), hnow(), EvKind::ConnErr { conn: id, kind: format!("{:?}", e.kind()) }),
    }
}

async fn server_conn(ctx: Ctx, me: usize, s: TcpStream) {
    let (mut r, w) = s.into_split();
    // the hello frame names the connection
    let conn = match read_frame(&mut r).await {
        Ok(Some(f)) => match decode(&f) {
            Some(m @ Msg::Data { conn, dir: 0, seq: 0 }) => {
                ctx.ev(Some(me), hnow(), EvKind::Recv(m));
                conn
            }
            other => {
                ctx.ev(Some(me), hnow(), EvKind::IoErr(format!("accepted stream: first frame is {other:?}")));
                std::future::pending::<()>().await;
                return;
            }
        },
        Ok(None) => {
            ctx.ev(Some(me), hnow(), EvKind::IoErr("accepted stream: EOF before hello".into()));
            let _keep = (r, w);
            std::future::pending::<()>().await;
            return;
        }
        Err(e) => {
            ctx.ev(Some(me), hnow(), EvKind::IoErr(format!("accepted stream: read {:?}", e.kind())));
            let _keep = (r, w);
            std::future::pending::<()>().await;
            return;
        }
    };
    let spec = ctx.net.conns.get(conn as usize).cloned();
    match spec {
        Some(c) if c.to == me => {
            tokio::task::spawn_local(write_loop(ctx.clone(), me, w, conn, 1, false, c.s2c.clone(), c.fin_s));
            read_loop(ctx, me, r, conn, 0).await;
        }
        _ => {
            ctx.ev(Some(me), hnow(), EvKind::IoErr(format!("hello names connection {conn} which does not end here")));
            let _keep = (r, w);
            std::future::pending::<()>().await;
        }
    }
}

async fn acceptor(ctx: Ctx, me: usize, l: TcpListener) {
    loop {
        match l.accept().await {
            Ok((s, origin)) => {
                ctx.ev(Some(me), hnow(), EvKind::Accept { from: ctx.host_of(origin.ip()), port: origin.port() });
                tokio::task::spawn_local(server_conn(ctx.clone(), me, s));
            }
            Err(e) => {
                ctx.ev(Some(me), hnow(), EvKind::IoErr(format!("accept: {:?}", e.kind())));
                break;
            }
        }
    }
}

async fn host_act(ctx: Ctx, me: usize, a: HostAct) {
    sleep_until_ms(a.at_ms).await;
    // a sequence is executed within this one poll: nothing else runs in between
    let acts: Vec<Act> = match &a.act {
        Act::Seq(v) => v.clone(),
        other => vec![other.clone()],
    };
    for act in acts {
        ctx.ev(Some(me), hnow(), EvKind::Act(act.clone()));
        if let Err(e) = apply_from_host(&act, ctx.net.cfg.ipv6) {
            ctx.ev(Some(me), hnow(), EvKind::IoErr(e));
        }
    }
}

async fn host_main(ctx: Ctx, me: usize) -> turmoil::Result {
    let unspec: IpAddr = if ctx.net.cfg.ipv6 { IpAddr::V6(Ipv6Addr::UNSPECIFIED) } else { IpAddr::V4(Ipv4Addr::UNSPECIFIED) };
    let sock = Rc::new(UdpSocket::bind((unspec, UDP_PORT)).await?);
    let listener = TcpListener::bind((unspec, TCP_PORT)).await?;
    tokio::task::spawn_local(udp_rx(ctx.clone(), me, sock.clone()));
    tokio::task::spawn_local(acceptor(ctx.clone(), me, listener));
    // fault calls first, so that a call and a send scheduled for the same instant on one host
    // happen in a fixed, documented order (call first)
    for a in ctx.net.hacts.iter().filter(|a| a.host == me) {
        tokio::task::spawn_local(host_act(ctx.clone(), me, a.clone()));
    }
    for b in ctx.net.udp.iter().filter(|b| b.from == me) {
        tokio::task::spawn_local(udp_tx(ctx.clone(), me, b.clone(), sock.clone()));
    }
    for (id, c) in ctx.net.conns.iter().enumerate().filter(|(_, c)| c.from == me) {
        tokio::task::spawn_local(client_conn(ctx.clone(), me, id as u16, c.clone()));
    }
    for (id, p) in ctx.net.probes.iter().enumerate().filter(|(_, p)| p.from == me) {
        let (ctx, p) = (ctx.clone(), p.clone());
        tokio::task::spawn_local(async move {
            sleep_until_ms(p.at_ms).await;
            ctx.ev(Some(me), hnow(), EvKind::ProbeSent { id, to: p.to });
            let r = TcpStream::connect(SocketAddr::new(ctx.ips[p.to], DEAD_PORT)).await;
            ctx.ev(Some(me), hnow(), EvKind::ProbeResult { id, to: p.to, err: r.err().map(|e| format!("{:?}", e.kind())) });
        });
    }
    std::future::pending::<()>().await;
    Ok(())
}

fn listed_of(ctx: &Ctx, sent: &turmoil::SentRef<'_>) -> Listed {
    let (src, dst) = sent.pair();
    let (kind, msg) = match sent.protocol() {
        Protocol::Udp(d) => (ListedKind::Udp, decode(&d.0)),
        Protocol::Tcp(Segment::Syn(_)) => (ListedKind::Syn, None),
        Protocol::Tcp(Segment::Data(seq, bytes)) => (ListedKind::Data(*seq), decode(bytes)),
        Protocol::Tcp(Segment::Fin(seq)) => (ListedKind::Fin(*seq), None),
        Protocol::Tcp(Segment::Rst) => (ListedKind::Rst, None),
    };
    Listed { src_host: ctx.host_of(src.ip()), src_port: src.port(), dst_host: ctx.host_of(dst.ip()), dst_port: dst.port(), kind, msg }
}

fn snapshot(sim: &Sim<'_>, ctx: &Ctx) -> Vec<LinkSnap> {
    let mut out = Vec::new();
    sim.links(|links| {
        for link in links {
            let (a, b) = link.pair();
            let mut msgs = Vec::new();
            for sent in link {
                msgs.push(listed_of(ctx, &sent));
            }
            out.push(LinkSnap { a: ctx.host_of(a), b: ctx.host_of(b), msgs });
        }
    });
    out
}

fn apply_from_ctl(sim: &mut Sim<'_>, ctx: &Ctx, act: &Act, marks: &mut BTreeMap<(usize, usize), Vec<Listed>>) {
    let v6 = ctx.net.cfg.ipv6;
    let t = us(sim.elapsed());
    if let Act::Seq(v) = act {
        for a in v {
            apply_from_ctl(sim, ctx, a, marks);
        }
        return;
    }
    match act {
        Act::Sample => {
            let snap = snapshot(sim, ctx);
            ctx.ev(None, t, EvKind::Links(snap));
            return;
        }
        Act::Deliver { a, b, rank } => {
            let key = (*a.min(b), *a.max(b));
            let want = marks.get(&key).and_then(|m| m.get(*rank)).copied();
            let mut found = None;
            if let Some(want) = want {
                sim.links(|links| {
                    for link in links {
                        let (x, y) = link.pair();
                        let (x, y) = (ctx.host_of(x), ctx.host_of(y));
                        if (x.min(y), x.max(y)) != key {
                            continue;
                        }
                        for sent in link {
                            if found.is_none() && listed_of(ctx, &sent) == want {
                                found = Some(want);
                                sent.deliver();
                            }
                        }
                    }
                });
            }
            ctx.ev(None, t, EvKind::Deliver { a: *a, b: *b, rank: *rank, what: found });
            return;
        }
        _ => {}
    }
    ctx.ev(None, t, EvKind::Act(act.clone()));
    match act {
        Act::Partition(a, b) => with2!(resolve(a, v6), resolve(b, v6), |x, y| sim.partition(x, y)),
        Act::PartitionOneway(a, b) => with2!(resolve(a, v6), resolve(b, v6), |x, y| sim.partition_oneway(x, y)),
        Act::Repair(a, b) => with2!(resolve(a, v6), resolve(b, v6), |x, y| sim.repair(x, y)),
        Act::RepairOneway(a, b) => with2!(resolve(a, v6), resolve(b, v6), |x, y| sim.repair_oneway(x, y)),
        Act::Hold(a, b) => with2!(resolve(a, v6), resolve(b, v6), |x, y| sim.hold(x, y)),
        Act::Release(a, b) => with2!(resolve(a, v6), resolve(b, v6), |x, y| sim.release(x, y)),
        Act::SetLinkLatency(a, b, v) => with2!(resolve(a, v6), resolve(b, v6), |x, y| sim.set_link_latency(x, y, Duration::from_micros(*v))),
        Act::SetLinkMaxLatency(a, b, v) => with2!(resolve(a, v6), resolve(b, v6), |x, y| sim.set_link_max_message_latency(x, y, Duration::from_micros(*v))),
        Act::SetLinkFailRateZero(a, b) => with2!(resolve(a, v6), resolve(b, v6), |x, y| sim.set_link_fail_rate(x, y, 0.0)),
        Act::SetFailRateZero => sim.set_fail_rate(0.0),
        Act::SetGlobalMax(v) => sim.set_max_message_latency(Duration::from_micros(*v)),
        Act::SetCurve(milli) => sim.set_message_latency_curve(*milli as f64 / 1000.0),
        Act::Mark(a, b) => {
            let key = (*a.min(b), *a.max(b));
            let snap = snapshot(sim, ctx);
            let listed = snap.into_iter().find(|l| (l.a.min(l.b), l.a.max(l.b)) == key).map(|l| l.msgs).unwrap_or_default();
            ctx.ev(None, t, EvKind::Links(vec![LinkSnap { a: key.0, b: key.1, msgs: listed.clone() }]));
            marks.insert(key, listed);
        }
        Act::DeliverAll(a, b) => {
            let key = (*a.min(b), *a.max(b));
            sim.links(|links| {
                for link in links {
                    let (x, y) = link.pair();
                    let (x, y) = (ctx.host_of(x), ctx.host_of(y));
                    if (x.min(y), x.max(y)) == key {
                        link.deliver_all();
                    }
                }
            });
        }
        Act::Sample | Act::Deliver { .. } | Act::Seq(..) => unreachable!(),
    }
}

/// Build the Sim, run hosts and controller for `net.steps` steps; returns the observations and the log.
pub fn execute(net: &Net, keep: bool) -> (Trace, Log) {
    let ips: Vec<IpAddr> = (0..net.hosts).map(|i| host_ip(i, net.cfg.ipv6)).collect();
    let ctx = Ctx {
        net: Rc::new(net.clone()),
        log: SharedLog::new(keep),
        evs: Rc::new(RefCell::new(Vec::new())),
        step: Rc::new(Cell::new(0)),
        udp_seq: Rc::new(RefCell::new(vec![0; net.hosts * net.hosts])),
        ips: Rc::new(ips.clone()),
    };
    let mut steps_done = 0u32;
    let mut step_err = None;
    let mut harness_error = None;
    let res = catch(|| {
        let mut sim = net.cfg.build();
        let literal = !net.literal_order.is_empty();
        LITERAL.with(|l| l.set((literal, net.cfg.ipv6)));
        if literal {
            let mut order = net.literal_order.clone();
            order.retain(|i| *i < net.hosts);
            for i in 0..net.hosts {
                if !order.contains(&i) {
                    order.push(i);
                }
            }
            for i in order {
                let c = ctx.clone();
                if i % 2 == 0 {
                    sim.host(ips[i], move || host_main(c.clone(), i));
                } else {
                    sim.host(ips[i].to_string(), move || host_main(c.clone(), i));
                }
            }
        } else {
            for i in 0..net.hosts {
                let c = ctx.clone();
                sim.host(host_name(i), move || host_main(c.clone(), i));
            }
        }
        for (i, ip) in ips.iter().enumerate() {
            if sim.lookup(host_ref(i)) != *ip {
                harness_error = Some(format!("host {i} got address {} instead of {ip}", sim.lookup(host_name(i))));
                return;
            }
        }
        let mut marks = BTreeMap::new();
        for s in 1..=net.steps {
            for (at, act) in net.script.iter().filter(|(at, _)| *at == s) {
                let _ = at;
                let sample = net.sample_links && !matches!(act, Act::Sample | Act::Mark(..));
                if sample {
                    apply_from_ctl(&mut sim, &ctx, &Act::Sample, &mut marks);
                }
                apply_from_ctl(&mut sim, &ctx, act, &mut marks);
                if sample {
                    apply_from_ctl(&mut sim, &ctx, &Act::Sample, &mut marks);
                }
            }
            ctx.step.set(s);
            let r = sim.step();
            ctx.step.set(s);
            steps_done = s;
            if let Err(e) = r {
                step_err = Some(format!("step {s}: {e}"));
                break;
            }
        }
        if net.sample_links {
            apply_from_ctl(&mut sim, &ctx, &Act::Sample, &mut marks);
        }
        drop(sim);
    });
    LITERAL.with(|l| l.set((false, false)));
    let evs = std::mem::take(&mut *ctx.evs.borrow_mut());
    let log = ctx.log.take();
    (Trace { evs, steps_done, panic: res.err(), step_err, harness_error }, log)
}

// ------------------------------------------------------------------------------------------------
// shared model helpers

/// Direction (from, to) a message travels.
pub fn direction(net: &Net, m: &Msg) -> (usize, usize) {
    match m {
        Msg::Udp { from, to, .. } => (*from as usize, *to as usize),
        Msg::Syn { conn } => (net.conns[*conn as usize].from, net.conns[*conn as usize].to),
        Msg::Data { conn, dir, .. } | Msg::Fin { conn, dir } => {
            let c = &net.conns[*conn as usize];
            if *dir == 0 {
                (c.from, c.to)
            } else {
                (c.to, c.from)
            }
        }
    }
}

/// The two readings of "the moment of the call": the virtual instant of the caller, and the link
/// clock (which runs ahead of a host inside a step). Controller calls sit on a step boundary where
/// both agree.
#[derive(Clone, Copy, Debug)]
pub struct Moment {
    pub c_min: u64,
    pub c_max: u64,
    /// the caller's own virtual instant
    pub t: u64,
    /// the link clock at the call (the end of the step the caller is in; a controller sits on the boundary)
    pub link: u64,
}

pub fn moment(ev: &Ev, tick: u64) -> Moment {
    match ev.host {
        None => Moment { c_min: ev.t, c_max: ev.t, t: ev.t, link: ev.t },
        Some(_) => Moment { c_min: ev.t.min(ev.step as u64 * tick), c_max: ev.t.max(ev.step as u64 * tick), t: ev.t, link: ev.step as u64 * tick },
    }
}

/// Link clock at the send: the end of the step the sender is in.
pub fn link_clock_at_send(ev: &Ev, tick: u64) -> u64 {
    ev.step as u64 * tick
}

/// A message with latency in [lmin, lmax] sent at `send` has certainly arrived (latency elapsed
/// under both readings) at moment `m`.
pub fn certainly_arrived(send: &Ev, lmax: u64, tick: u64, m: Moment) -> bool {
    link_clock_at_send(send, tick) + lmax <= m.c_min
}

/// ... is certainly still in flight at moment `m`: its latency has not elapsed on the clocks of the hosts
/// (sender's instant against caller's instant) nor on the link clock (link clock at the send against link
/// clock at the call). Inside one step both clocks stand still for a call that follows the send, so any
/// latency above zero keeps the message in flight there.
pub fn certainly_in_flight(send: &Ev, lmin: u64, tick: u64, m: Moment) -> bool {
    send.t + lmin > m.t && link_clock_at_send(send, tick) + lmin > m.link
}

/// Event order and virtual time disagree about which of a host-issued call and a send by another
/// host came first (both happened inside the same step).
pub fn order_ambiguous(call: &Ev, send: &Ev) -> bool {
    match (call.host, send.host) {
        (Some(a), Some(b)) if a != b && call.step == send.step => (call.seq < send.seq && call.t > send.t) || (call.seq > send.seq && call.t < send.t),
        _ => false,
    }
}

/// Effective latency window of every link over time (the reference, from the property text: a
/// per-link setting takes precedence over the global one from the moment it is made).
#[derive(Clone, Debug)]
pub struct LatModel {
    pub global: (u64, u64),
    pub over: BTreeMap<(usize, usize), (u64, u64)>,
    n: usize,
}

impl LatModel {
    pub fn new(net: &Net) -> Self {
        LatModel { global: (net.cfg.min_latency_us, net.cfg.max_latency_us), over: BTreeMap::new(), n: net.hosts }
    }
    pub fn eff(&self, a: usize, b: usize) -> (u64, u64) {
        self.over.get(&(a.min(b), a.max(b))).copied().unwrap_or(self.global)
    }
    /// returns true when the act changed a latency setting
    pub fn apply(&mut self, act: &Act) -> bool {
        match act {
            Act::SetLinkLatency(a, b, v) => {
                for (x, y) in pairs_of(a, b, self.n) {
                    self.over.insert((x.min(y), x.max(y)), (*v, *v));
                }
                true
            }
            Act::SetLinkMaxLatency(a, b, v) => {
                for (x, y) in pairs_of(a, b, self.n) {
                    let cur = self.eff(x, y);
                    self.over.insert((x.min(y), x.max(y)), (cur.0, *v));
                }
                true
            }
            Act::SetGlobalMax(v) => {
                self.global.1 = *v;
                true
            }
            _ => false,
        }
    }
}

/// Per message: where it was sent and every receipt.
#[derive(Clone, Debug)]
pub struct MsgInfo {
    pub msg: Msg,
    pub from: usize,
    pub to: usize,
    /// index into `Trace::evs`
    pub send: usize,
    pub recvs: Vec<usize>,
}

pub struct Index {
    pub msgs: Vec<MsgInfo>,
    pub by_msg: BTreeMap<Msg, usize>,
    /// conn -> ConnOk event index / ConnErr event index
    pub conn_ok: BTreeMap<u16, usize>,
    pub conn_err: BTreeMap<u16, usize>,
    /// receipts of something that was never sent, accepts nobody asked for, I/O errors
    pub oddities: Vec<usize>,
}

/// Build the message index. A SYN's receipt is the `accept` that returned the matching origin port.
pub fn index(net: &Net, tr: &Trace) -> Index {
    let mut ix = Index { msgs: Vec::new(), by_msg: BTreeMap::new(), conn_ok: BTreeMap::new(), conn_err: BTreeMap::new(), oddities: Vec::new() };
    for (i, e) in tr.evs.iter().enumerate() {
        match &e.kind {
            EvKind::Send(m) => {
                let (from, to) = direction(net, m);
                if ix.by_msg.insert(*m, ix.msgs.len()).is_some() {
                    ix.oddities.push(i);
                }
                ix.msgs.push(MsgInfo { msg: *m, from, to, send: i, recvs: Vec::new() });
            }
            EvKind::ConnOk { conn, .. } => {
                ix.conn_ok.insert(*conn, i);
            }
            EvKind::ConnErr { conn, .. } => {
                ix.conn_err.insert(*conn, i);
            }
            _ => {}
        }
    }
    for (i, e) in tr.evs.iter().enumerate() {
        match &e.kind {
            EvKind::Recv(m) => match ix.by_msg.get(m) {
                Some(k) if tr.evs[ix.msgs[*k].send].seq < e.seq && ix.msgs[*k].to == e.host.unwrap_or(usize::MAX) => ix.msgs[*k].recvs.push(i),
                _ => ix.oddities.push(i),
            },
            EvKind::Accept { from, port } => {
                // which connection? the one whose connector reported this local port
                let me = e.host.unwrap_or(usize::MAX);
                let conn = ix.conn_ok.iter().find(|(c, okev)| {
                    let spec = &net.conns[**c as usize];
                    spec.from == *from && spec.to == me && matches!(&tr.evs[**okev].kind, EvKind::ConnOk { port: p, .. } if p == port)
                });
                match conn {
                    Some((c, _)) => {
                        let k = ix.by_msg[&Msg::Syn { conn: *c }];
                        ix.msgs[k].recvs.push(i);
                    }
                    // the connector has not had its turn yet (end of run) or never learnt its port
                    None => ix.oddities.push(i),
                }
            }
            EvKind::IoErr(_) => ix.oddities.push(i),
            _ => {}
        }
    }
    ix
}

/// Which message of the model a listed entry is (SYNs and FINs carry no payload: matched by ports).
pub fn listed_to_msg(net: &Net, tr: &Trace, ix: &Index, l: &Listed) -> Option<Msg> {
    if let Some(m) = l.msg {
        return Some(m);
    }
    let conn_by_port = |client: usize, port: u16, server: usize| -> Option<u16> {
        ix.conn_ok
            .iter()
            .find(|(c, okev)| {
                let spec = &net.conns[**c as usize];
                spec.from == client && spec.to == server && matches!(&tr.evs[**okev].kind, EvKind::ConnOk { port: p, .. } if *p == port)
            })
            .map(|(c, _)| *c)
    };
    match l.kind {
        ListedKind::Syn => conn_by_port(l.src_host, l.src_port, l.dst_host).map(|conn| Msg::Syn { conn }),
        ListedKind::Fin(_) => {
            if l.dst_port == TCP_PORT {
                conn_by_port(l.src_host, l.src_port, l.dst_host).map(|conn| Msg::Fin { conn, dir: 0 })
            } else {
                conn_by_port(l.dst_host, l.dst_port, l.src_host).map(|conn| Msg::Fin { conn, dir: 1 })
            }
        }
        _ => None,
    }
}

// ------------------------------------------------------------------------------------------------
// shrinking (shared): candidates that remove or simplify parts of a Net

fn max_host_used(net: &Net) -> usize {
    let mut m = 1usize;
    for b in &net.udp {
        m = m.max(b.from).max(b.to);
    }
    for c in &net.conns {
        m = m.max(c.from).max(c.to);
    }
    for a in &net.hacts {
        m = m.max(a.host).max(a.act.max_host());
    }
    for (_, a) in &net.script {
        m = m.max(a.max_host());
    }
    m
}

fn simpler_sel(s: &Sel) -> Option<Sel> {
    match s {
        Sel::IpStr(i) | Sel::Ip(i) => Some(Sel::Name(*i)),
        Sel::Set(v) if v.len() == 1 => Some(Sel::Name(v[0])),
        _ => None,
    }
}

pub fn shrink_net(net: &Net) -> Vec<Net> {
    let mut out = Vec::new();
    // whole groups first
    if net.conns.len() > 1 {
        let mut c = net.clone();
        c.conns.clear();
        out.push(c);
    }
    if net.udp.len() > 1 {
        let mut c = net.clone();
        c.udp.truncate(net.udp.len() / 2);
        out.push(c);
        let mut c = net.clone();
        c.udp.drain(..net.udp.len() / 2);
        out.push(c);
    }
    if net.hacts.len() > 1 {
        let mut c = net.clone();
        c.hacts.clear();
        out.push(c);
    }
    for i in 0..net.script.len() {
        let mut c = net.clone();
        c.script.remove(i);
        out.push(c);
    }
    for i in 0..net.hacts.len() {
        let mut c = net.clone();
        c.hacts.remove(i);
        out.push(c);
    }
    for i in 0..net.script.len() {
        if let Act::Seq(v) = &net.script[i].1 {
            for j in 0..v.len() {
                let mut c = net.clone();
                if let Act::Seq(w) = &mut c.script[i].1 {
                    w.remove(j);
                }
                out.push(c);
            }
        }
    }
    for i in 0..net.hacts.len() {
        if let Act::Seq(v) = &net.hacts[i].act {
            for j in 0..v.len() {
                let mut c = net.clone();
                if let Act::Seq(w) = &mut c.hacts[i].act {
                    w.remove(j);
                }
                out.push(c);
            }
        }
    }
    // connections are numbered by position: remove only the last one, empty the others
    if !net.conns.is_empty() {
        let mut c = net.clone();
        c.conns.pop();
        out.push(c);
    }
    for i in 0..net.conns.len() {
        let k = &net.conns[i];
        if !k.c2s.is_empty() || !k.s2c.is_empty() || k.fin_c.is_some() || k.fin_s.is_some() {
            let mut c = net.clone();
            c.conns[i].c2s.clear();
            c.conns[i].s2c.clear();
            c.conns[i].fin_c = None;
            c.conns[i].fin_s = None;
            out.push(c);
        }
        for j in 0..k.c2s.len() {
            let mut c = net.clone();
            c.conns[i].c2s.remove(j);
            out.push(c);
        }
        for j in 0..k.s2c.len() {
            let mut c = net.clone();
            c.conns[i].s2c.remove(j);
            out.push(c);
        }
        if k.fin_c.is_some() {
            let mut c = net.clone();
            c.conns[i].fin_c = None;
            out.push(c);
        }
        if k.fin_s.is_some() {
            let mut c = net.clone();
            c.conns[i].fin_s = None;
            out.push(c);
        }
    }
    for i in 0..net.udp.len() {
        let mut c = net.clone();
        c.udp.remove(i);
        out.push(c);
        if net.udp[i].count > 1 {
            let mut c = net.clone();
            c.udp[i].count = 1;
            out.push(c);
        }
    }
    if net.hosts > 2 && max_host_used(net) < net.hosts - 1 {
        let mut c = net.clone();
        c.hosts -= 1;
        out.push(c);
    }
    if net.steps > 3 {
        let mut c = net.clone();
        c.steps = net.steps - net.steps / 4 - 1;
        c.script.retain(|(s, _)| *s <= c.steps);
        out.push(c);
    }
    if net.cfg.random_order {
        let mut c = net.clone();
        c.cfg.random_order = false;
        out.push(c);
    }
    if net.cfg.latency_curve_milli.is_some() {
        let mut c = net.clone();
        c.cfg.latency_curve_milli = None;
        out.push(c);
    }
    if net.cfg.ipv6 {
        let mut c = net.clone();
        c.cfg.ipv6 = false;
        out.push(c);
    }
    if net.sample_links {
        let mut c = net.clone();
        c.sample_links = false;
        out.push(c);
    }
    if net.cfg.max_latency_us > net.cfg.min_latency_us {
        let mut c = net.clone();
        c.cfg.max_latency_us = net.cfg.min_latency_us;
        out.push(c);
    }
    // simpler selectors
    for i in 0..net.script.len() {
        let mut c = net.clone();
        let mut changed = false;
        if let Some((a, b)) = c.script[i].1.sels_mut() {
            if let Some(s) = simpler_sel(a) {
                *a = s;
                changed = true;
            }
            if let Some(s) = simpler_sel(b) {
                *b = s;
                changed = true;
            }
        }
        if changed {
            out.push(c);
        }
    }
    for i in 0..net.hacts.len() {
        let mut c = net.clone();
        let mut changed = false;
        if let Some((a, b)) = c.hacts[i].act.sels_mut() {
            if let Some(s) = simpler_sel(a) {
                *a = s;
                changed = true;
            }
            if let Some(s) = simpler_sel(b) {
                *b = s;
                changed = true;
            }
        }
        if changed {
            out.push(c);
        }
    }
    if net.udp.iter().any(|b| b.by_ip) || net.conns.iter().any(|k| k.by_ip) {
        let mut c = net.clone();
        c.udp.iter_mut().for_each(|b| b.by_ip = false);
        c.conns.iter_mut().for_each(|k| k.by_ip = false);
        out.push(c);
    }
    out
}

/// Socket capacities a workload needs so that no documented limit of the subject is hit even if
/// every message towards one socket arrives in a single step (e.g. after a release): datagrams per
/// receiving socket, segments per connection direction (+1 for the FIN, +1 spare), SYNs per listener.
pub fn capacity_needs(net: &Net) -> (usize, usize) {
    let n = net.hosts;
    let mut udp = vec![0usize; n];
    for b in &net.udp {
        udp[b.to] += b.count as usize;
    }
    let mut syns = vec![0usize; n];
    let mut seg = 0usize;
    for c in &net.conns {
        syns[c.to] += 1;
        let c2s: usize = 1 + c.c2s.iter().map(|x| x.1 as usize).sum::<usize>();
        let s2c: usize = c.s2c.iter().map(|x| x.1 as usize).sum::<usize>();
        seg = seg.max(c2s).max(s2c);
    }
    (udp.into_iter().max().unwrap_or(0).max(1), (seg + 2).max(syns.into_iter().max().unwrap_or(0) + 1))
}

/// Instant (ms) of the last scheduled program operation.
pub fn last_op_ms(net: &Net) -> u64 {
    let mut m = 0;
    for b in &net.udp {
        m = m.max(b.at_ms);
    }
    for c in &net.conns {
        m = m.max(c.at_ms);
        for (at, _) in c.c2s.iter().chain(c.s2c.iter()) {
            m = m.max(*at);
        }
        m = m.max(c.fin_c.unwrap_or(0)).max(c.fin_s.unwrap_or(0));
    }
    for a in &net.hacts {
        m = m.max(a.at_ms);
    }
    m
}
