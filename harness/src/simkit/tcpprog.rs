//! simkit::tcpprog — pieces shared by the TCP/port properties (C02, C12, C15): host naming and
//! addressing, error-kind names, a view of the in-flight messages of a `Sim` (through the public
//! `Sim::links` iterator) with single-message delivery, controller-side link faults as data,
//! a "some program is sleeping" counter for quiescence detection, and permutation codes.

use serde::{Deserialize, Serialize};
use std::cell::Cell;
use std::io;
use std::net::{IpAddr, Ipv4Addr, Ipv6Addr, SocketAddr};
use std::rc::Rc;
use std::time::Duration;
use turmoil::{Protocol, Segment, Sim};

pub fn host_name(i: usize) -> String {
    format!("h{i}")
}

/// Address turmoil hands to the i-th registered name (the property under test in C15 checks this
/// mapping independently; here it is only used to address peers by literal IP).
pub fn host_ip(i: usize, ipv6: bool) -> IpAddr {
    let n = i as u32 + 1;
    if ipv6 {
        IpAddr::V6(Ipv6Addr::new(0xfe80, 0, 0, 0, 0, 0, (n >> 16) as u16, (n & 0xffff) as u16))
    } else {
        IpAddr::V4(Ipv4Addr::new(192, 168, (n >> 8) as u8, (n & 0xff) as u8))
    }
}

pub fn loopback(ipv6: bool) -> IpAddr {
    if ipv6 {
        IpAddr::V6(Ipv6Addr::LOCALHOST)
    } else {
        IpAddr::V4(Ipv4Addr::LOCALHOST)
    }
}

pub fn wildcard(ipv6: bool) -> IpAddr {
    if ipv6 {
        IpAddr::V6(Ipv6Addr::UNSPECIFIED)
    } else {
        IpAddr::V4(Ipv4Addr::UNSPECIFIED)
    }
}

pub fn kind_name(k: io::ErrorKind) -> &'static str {
    use io::ErrorKind::*;
    match k {
        ConnectionRefused => "ConnectionRefused",
        ConnectionReset => "ConnectionReset",
        BrokenPipe => "BrokenPipe",
        WouldBlock => "WouldBlock",
        AddrInUse => "AddrInUse",
        AddrNotAvailable => "AddrNotAvailable",
        NotConnected => "NotConnected",
        NotFound => "NotFound",
        TimedOut => "TimedOut",
        InvalidInput => "InvalidInput",
        UnexpectedEof => "UnexpectedEof",
        _ => "OtherKind",
    }
}

// ------------------------------------------------------------------------------------------------
// in-flight messages

#[derive(Clone, Copy, Debug, PartialEq, Eq, Hash, PartialOrd, Ord)]
pub enum MsgKind {
    Syn,
    Data,
    Fin,
    Rst,
    Udp,
}

/// One message sitting on a link (scheduled or held). `seq` is the TCP sequence number for
/// Data/Fin (0 otherwise), `len` the payload length. For position-coded payloads `first` is the
/// first payload byte (0 when empty).
#[derive(Clone, Copy, Debug, PartialEq, Eq, Hash, PartialOrd, Ord)]
pub struct Flight {
    pub src: SocketAddr,
    pub dst: SocketAddr,
    pub kind: MsgKind,
    pub seq: u64,
    pub len: usize,
}

fn describe(src: SocketAddr, dst: SocketAddr, p: &Protocol) -> Flight {
    let (kind, seq, len) = match p {
        Protocol::Tcp(Segment::Syn(_)) => (MsgKind::Syn, 0, 0),
        Protocol::Tcp(Segment::Data(s, b)) => (MsgKind::Data, *s, b.len()),
        Protocol::Tcp(Segment::Fin(s)) => (MsgKind::Fin, *s, 0),
        Protocol::Tcp(Segment::Rst) => (MsgKind::Rst, 0, 0),
        Protocol::Udp(d) => (MsgKind::Udp, 0, d.0.len()),
    };
    Flight { src, dst, kind, seq, len }
}

/// All messages currently on any link, in link order then send order.
pub fn inflight(sim: &Sim<'_>) -> Vec<Flight> {
    let mut out = Vec::new();
    sim.links(|links| {
        for link in links {
            for sent in link {
                let (src, dst) = sent.pair();
                out.push(describe(src, dst, sent.protocol()));
            }
        }
    });
    out
}

/// Schedule the first in-flight message equal to `f` for delivery at the next step.
pub fn deliver_one(sim: &Sim<'_>, f: &Flight) -> bool {
    let mut done = false;
    sim.links(|links| {
        for link in links {
            for sent in link {
                if done {
                    continue;
                }
                let (src, dst) = sent.pair();
                if describe(src, dst, sent.protocol()) == *f {
                    sent.deliver();
                    done = true;
                }
            }
        }
    });
    done
}

impl Flight {
    pub fn brief(&self) -> String {
        format!("{:?}#{}({}B) {}->{}", self.kind, self.seq, self.len, self.src, self.dst)
    }
}

/// Multiset difference `a \ b` (messages that were in flight before a step and are gone after it).
pub fn gone(a: &[Flight], b: &[Flight]) -> Vec<Flight> {
    let mut rest: Vec<Flight> = b.to_vec();
    let mut out = Vec::new();
    for f in a {
        if let Some(p) = rest.iter().position(|x| x == f) {
            rest.swap_remove(p);
        } else {
            out.push(*f);
        }
    }
    out
}

// ------------------------------------------------------------------------------------------------
// link faults issued by the controller between two steps

#[derive(Clone, Debug, Serialize, Deserialize, PartialEq)]
pub enum LinkAct {
    Hold(usize, usize),
    Release(usize, usize),
    Partition(usize, usize),
    Repair(usize, usize),
    /// messages from .0 to .1 are dropped
    PartitionOneway(usize, usize),
    RepairOneway(usize, usize),
}

impl LinkAct {
    pub fn hosts(&self) -> (usize, usize) {
        match self {
            LinkAct::Hold(a, b) | LinkAct::Release(a, b) | LinkAct::Partition(a, b) | LinkAct::Repair(a, b) | LinkAct::PartitionOneway(a, b) | LinkAct::RepairOneway(a, b) => (*a, *b),
        }
    }
    pub fn name(&self) -> &'static str {
        match self {
            LinkAct::Hold(..) => "hold",
            LinkAct::Release(..) => "release",
            LinkAct::Partition(..) => "partition",
            LinkAct::Repair(..) => "repair",
            LinkAct::PartitionOneway(..) => "partition_oneway",
            LinkAct::RepairOneway(..) => "repair_oneway",
        }
    }
    pub fn is_partition(&self) -> bool {
        matches!(self, LinkAct::Partition(..) | LinkAct::PartitionOneway(..))
    }
    pub fn apply(&self, sim: &Sim<'_>) {
        let (a, b) = self.hosts();
        let (a, b) = (host_name(a), host_name(b));
        match self {
            LinkAct::Hold(..) => sim.hold(a, b),
            LinkAct::Release(..) => sim.release(a, b),
            LinkAct::Partition(..) => sim.partition(a, b),
            LinkAct::Repair(..) => sim.repair(a, b),
            LinkAct::PartitionOneway(..) => sim.partition_oneway(a, b),
            LinkAct::RepairOneway(..) => sim.repair_oneway(a, b),
        }
    }
    /// Re-index after host `gone` was removed from a scenario; None if the action named it.
    pub fn without_host(&self, gone: usize) -> Option<LinkAct> {
        let (a, b) = self.hosts();
        if a == gone || b == gone {
            return None;
        }
        let f = |x: usize| if x > gone { x - 1 } else { x };
        let (a, b) = (f(a), f(b));
        Some(match self {
            LinkAct::Hold(..) => LinkAct::Hold(a, b),
            LinkAct::Release(..) => LinkAct::Release(a, b),
            LinkAct::Partition(..) => LinkAct::Partition(a, b),
            LinkAct::Repair(..) => LinkAct::Repair(a, b),
            LinkAct::PartitionOneway(..) => LinkAct::PartitionOneway(a, b),
            LinkAct::RepairOneway(..) => LinkAct::RepairOneway(a, b),
        })
    }
}

// ------------------------------------------------------------------------------------------------
// quiescence: programs announce their own sleeps so that the controller can tell "everybody is
// blocked on the network" from "somebody is waiting for a timer"

#[derive(Clone, Default)]
pub struct Sleepers(pub Rc<Cell<u32>>);

struct SleepGuard(Rc<Cell<u32>>);
impl Drop for SleepGuard {
    fn drop(&mut self) {
        self.0.set(self.0.get() - 1);
    }
}

impl Sleepers {
    pub fn count(&self) -> u32 {
        self.0.get()
    }
    pub async fn sleep(&self, d: Duration) {
        self.0.set(self.0.get() + 1);
        let _g = SleepGuard(self.0.clone());
        tokio::time::sleep(d).await;
    }
    /// Mark the caller as "timed" for the duration of `f` (e.g. a tokio::time::timeout around a connect).
    pub async fn timed<T>(&self, f: impl std::future::Future<Output = T>) -> T {
        self.0.set(self.0.get() + 1);
        let _g = SleepGuard(self.0.clone());
        f.await
    }
}

// ------------------------------------------------------------------------------------------------
// permutations as Lehmer-style codes: entry j picks index code[j] % remaining.len()

pub fn apply_code<T: Clone>(items: &[T], code: &[u8]) -> Vec<T> {
    let mut rest: Vec<T> = items.to_vec();
    let mut out = Vec::with_capacity(rest.len());
    let mut j = 0;
    while !rest.is_empty() {
        let c = code.get(j).copied().unwrap_or(0) as usize % rest.len();
        out.push(rest.remove(c));
        j += 1;
    }
    out
}

/// All k! codes for k items (k <= 5).
pub fn all_codes(k: usize) -> Vec<Vec<u8>> {
    let mut out: Vec<Vec<u8>> = vec![vec![]];
    for j in 0..k {
        let mut next = Vec::new();
        for c in &out {
            for x in 0..(k - j) {
                let mut d = c.clone();
                d.push(x as u8);
                next.push(d);
            }
        }
        out = next;
    }
    out
}

#[cfg(test)]
mod tests {
    use super::*;
    #[test]
    fn codes() {
        assert_eq!(all_codes(3).len(), 6);
        assert_eq!(all_codes(4).len(), 24);
        let items = [1, 2, 3];
        let mut seen = std::collections::BTreeSet::new();
        for c in all_codes(3) {
            seen.insert(apply_code(&items, &c));
        }
        assert_eq!(seen.len(), 6);
        assert_eq!(apply_code(&items, &[]), vec![1, 2, 3]);
        assert_eq!(apply_code(&items, &[2, 0, 0]), vec![3, 1, 2]);
    }
    #[test]
    fn gone_is_multiset_difference() {
        let a: SocketAddr = "192.168.0.1:1".parse().unwrap();
        let b: SocketAddr = "192.168.0.2:2".parse().unwrap();
        let f = |k, s| Flight { src: a, dst: b, kind: k, seq: s, len: 0 };
        let before = [f(MsgKind::Rst, 0), f(MsgKind::Rst, 0), f(MsgKind::Data, 1)];
        let after = [f(MsgKind::Rst, 0)];
        assert_eq!(gone(&before, &after), vec![f(MsgKind::Rst, 0), f(MsgKind::Data, 1)]);
    }
}
