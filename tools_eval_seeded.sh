#!/bin/bash
# Official evaluation of the seeded changes: apply each to /repo, run the property's quick check
# (./run.sh rebuilds from the working tree), undo it straight afterwards. /repo must be clean.
# usage: tools_eval_seeded.sh [id ...]   (default: all)
cd /verif || exit 2
if [ -n "$(git -C /repo status --short)" ]; then echo "/repo is not clean"; exit 2; fi
ids="$@"; [ -z "$ids" ] && ids=$(ls seeded)
for id in $ids; do
  d=seeded/$id; p=$(jq -r .property $d/meta.json)
  git -C /repo apply $d/patch.diff || { echo "$id: patch does not apply"; continue; }
  start=$(date +%s)
  ./run.sh $p quick > /tmp/eval_seeded.$$.log 2>&1; rc=$?
  end=$(date +%s)
  git -C /repo checkout -- .
  v=$(grep -m1 "^violation" /tmp/eval_seeded.$$.log | cut -c1-300)
  jq -n --arg id "$id" --arg check "./run.sh $p quick" --argjson rc $rc --argjson wall $((end-start)) --arg v "$v" --arg head "$(git -C /repo log --format=%h -1)" --arg verif "$(git -C /verif log --format=%h -1)" \
     '{id:$id, check:$check, exit:$rc, caught:($rc==1), wall_s:$wall, first_violation:$v, repo_head:$head, verif_commit:$verif}' > $d/result.json
  echo "$id rc=$rc ${v:0:120}"
done
rm -f /tmp/eval_seeded.$$.log
./run.sh C10 quick >/dev/null 2>&1   # rebuild against the clean tree
