#!/bin/bash
# Entry point of every quick_cmd / thorough_cmd:   ./run.sh <ID> quick|thorough     ./run.sh replay <file>
# Rebuilds the harness against /repo's current working tree (path dependencies, hooks on through
# --cfg turmoil_verif in harness/.cargo/config.toml), then runs the check.
# exit 0 = property held (known findings printed as KNOWN-FINDING lines), 1 = VIOLATION, 2 = harness error
set -u
cd "$(dirname "$0")/harness" || exit 2
export CARGO_NET_OFFLINE=true
if ! cargo build --release --offline >/tmp/vcheck-build.$$.log 2>&1; then
  echo "harness error: build failed against the current /repo tree" >&2
  tail -40 /tmp/vcheck-build.$$.log >&2
  rm -f /tmp/vcheck-build.$$.log
  exit 2
fi
rm -f /tmp/vcheck-build.$$.log
BIN=/verif/target/release/vcheck
cd /verif || exit 2
case "${1:-}" in
  replay) exec "$BIN" replay "$2" ;;
  selfcheck|survey|record) exec "$BIN" "$@" ;;
  *) exec "$BIN" "$1" --tier "${2:-quick}" ;;
esac
