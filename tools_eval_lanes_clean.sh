#!/bin/bash
# removes the scratch lanes of tools_eval_lanes.sh (worktrees + build output)
for L in /tmp/lanes/*/; do git -C /repo worktree remove --force ${L}repo 2>/dev/null; done
rm -rf /tmp/lanes; git -C /repo worktree prune
