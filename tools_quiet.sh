#!/bin/bash
# Quiet-on-the-unchanged-tree gate: runs the quick tier of the given checks under several VERIF_SEEDs
# (evidence and replays go to a scratch directory) and prints every run that is not exit 0.
# usage: tools_quiet.sh "<ID> <ID> ..." <first-seed> <last-seed> [tier]
cd /verif || exit 2
out=/tmp/vo-quiet; mkdir -p $out
bad=0
for p in $1; do for s in $(seq $2 $3); do
  VERIF_OUT_DIR=$out VERIF_SEED=$s target/release/vcheck $p --tier ${4:-quick} > $out/$p.$s.log 2>&1; rc=$?
  if [ $rc -ne 0 ]; then bad=$((bad+1)); echo "$p seed=$s rc=$rc $(grep -m2 '^violation\|harness error' $out/$p.$s.log | cut -c1-300)"; fi
done; echo "$p seeds $2..$3 done"; done
echo "not quiet: $bad"
