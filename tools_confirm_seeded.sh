#!/bin/bash
# Owner's confirmation of a seeded change written by a sub-agent, in the sub-agent's scratch worktree
# (never in /repo): patch applies; demonstration passes on the clean tree and fails with the change; the
# existing suites still pass with the change. On success the change is stored as /verif/seeded/<P>-m<k>/.
# usage: tools_confirm_seeded.sh <worktree> <out-subdir> <new-id>      e.g. /tmp/mut2-C03 1 C03-m4
WT=$1; N=$2; ID=$3
O=$WT/out/$N
cd $WT || exit 2
export CARGO_NET_OFFLINE=true
git checkout -q -- . ; git clean -fdq crates
dest=$(jq -r .demo_dest $O/meta.json); cmd=$(jq -r .demo_cmd $O/meta.json)
case "$cmd" in *--offline*) ;; *) cmd="$cmd --offline";; esac
L=$O/confirm.log; : > $L
git apply --check $O/patch.diff >>$L 2>&1; a=$?
[ $a -ne 0 ] && { echo "$ID: patch does not apply"; exit 1; }
mkdir -p $(dirname $dest); cp $O/demo.rs $dest
( eval "$cmd" ) >>$L 2>&1; clean=$?
git apply $O/patch.diff
( eval "$cmd" ) >>$L 2>&1; mut=$?
rm -f $dest
s1=0; s2=0; s3=0
cargo test --workspace --offline >>$L 2>&1; s1=$?
if [ $s1 -ne 0 ] && grep -q "test_tokio_with_io_disabled" $L; then cargo test --workspace --offline >>$L 2>&1; s1=$?; fi
cargo test -p turmoil --features unstable-fs,unstable-io_uring,unstable-barriers,regex --offline >>$L 2>&1; s2=$?
if [ $s2 -ne 0 ] && grep -q "test_tokio_with_io_disabled" $L; then cargo test -p turmoil --features unstable-fs,unstable-io_uring,unstable-barriers,regex --offline >>$L 2>&1; s2=$?; fi
cargo test -p turmoil-net --offline >>$L 2>&1; s3=$?
git checkout -q -- . ; git clean -fdq crates
echo "$ID apply=$a demo_clean=$clean demo_mut=$mut suites=$s1/$s2/$s3"
if [ $clean -eq 0 ] && [ $mut -ne 0 ] && [ $s1 -eq 0 ] && [ $s2 -eq 0 ] && [ $s3 -eq 0 ]; then
  D=/verif/seeded/$ID; mkdir -p $D
  cp $O/patch.diff $D/patch.diff; cp $O/demo.rs $D/demo.rs
  jq --arg id "$ID" --arg wt "$WT" --arg cmd "$cmd" --arg dest "$dest" --arg head "$(git -C /repo log --format=%h -1)" --argjson clean $clean --argjson mut $mut --argjson s1 $s1 --argjson s2 $s2 --argjson s3 $s3 \
    '. + {id:$id, source:("written by a fresh sub-agent that saw only the property text and its own scratch worktree of /repo (HEAD "+$head+")"), confirmed_by_owner:{where:("scratch worktree "+$wt+" (removed afterwards)"), demo_cmd:$cmd, demo_dest:$dest, patch_applies_exit:0, demo_exit_on_clean_tree:$clean, demo_exit_with_change:$mut, cargo_test_workspace_exit_with_change:$s1, cargo_test_turmoil_all_features_exit_with_change:$s2, cargo_test_turmoil_net_exit_with_change:$s3}}' $O/meta.json > $D/meta.json
  echo "$ID stored"
else
  echo "$ID NOT confirmed (see $L)"
fi
