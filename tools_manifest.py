#!/usr/bin/env python3
"""Regenerates /verif/MANIFEST.json from the table below (keeps it valid at all times)."""
import json, subprocess
ALL = ["C%02d" % i for i in range(1, 21)]
CHECKS = {
 "C07": dict(level="fault_enumeration", design="5/C07", technique="deterministic simulation with fault injection: seeded fs histories against the real turmoil-fs, a crash injected after every prefix (fresh Fs per prefix) and crash-continue-crash, driven directly against an entered Fs and as host programs inside a running turmoil::Sim (Sim::crash/bounce, two hosts with the same paths), front-ends std shim / tokio shim / io_uring; oracle = durable image of an inode-based reference model (admissible sets under sync_probability / torn-write block_size)",
   text="Every history prefix of every seeded workload is crashed and the complete post-crash tree is compared with the reference durable image; histories are small (<=14 ops, 10 path names) so the crash-point dimension is enumerated completely per workload while workloads, knobs and front-ends are sampled by seed. A clean run is evidence over the sampled histories, not a proof.",
   note="Trusted: the reference model in harness/src/fskit/model.rs (written from the property text; unit tests in the same file), the std/tokio shims as the only way in. In the direct driver the embedder is the harness itself (turmoil_fs::enter + Fs::crash); the in-Sim driver goes through Sim::step/crash/bounce. Known findings C07-K1..K4 (path-keyed pending log) are excluded from 95% of the histories by generator guards and matched by predicate in the remaining 5%."),
 "C10": dict(level="exploration", design="5/C10", technique="deterministic simulation: seeded state-aware operation histories through the std and tokio shims of the real turmoil-fs on 1-2 hosts, virtual time advanced between ops, syncs inserted anywhere; oracle = inode-based POSIX reference tree compared after every op (return value + full sweep) plus the sync-free metamorphic twin",
   text="Seeded exploration of operation histories (no fault by definition of the property; the adversary is the history, the sync placement and the passage of time). Each op's return and a full sweep of every path are compared with the reference tree, so a divergence is caught at the op that causes it.",
   note="Trusted: the reference model (fskit/model.rs). Error kinds compared for NotFound/AlreadyExists/DirectoryNotEmpty, otherwise only Ok-vs-Err. Known findings C10-K1..K4 (handles and pending ops are keyed by path) are excluded from 95% of the histories by generator guards and matched by predicate in the rest; seven defects were repaired (fixed entries in known_findings.json)."),
 "C05": dict(level="exploration", design="5/C05", technique="deterministic simulation with fault injection: seeded turmoil::Sim runs (real per-host paused tokio runtimes) with timer programs on several tasks per host, late registration, crash/bounce injected at seeded steps with seeded downtime; oracle = reference clock checked after every step and on every host observation",
   text="Seeded exploration over ticks, timer patterns, registration instants and crash/bounce placements; every observation of every host is checked against the reference clock (step window, elapsed/sim_elapsed/since_epoch consistency, monotonicity, exact timer instants).",
   note="Trusted: the reference clock arithmetic in props/c05.rs. Timer durations are whole milliseconds (property text). Known finding C05-K1 (ticks that are not whole milliseconds) is exercised in 5% of the scenarios and matched by predicate (tick_us % 1000 != 0)."),
 "C11": dict(level="exploration", design="5/C11", technique="deterministic simulation with fault injection: seeded mixes of clients/hosts with scripted fates (Ok / Err / never / panic in main or spawned task) at seeded virtual instants on real turmoil::Sim runs, Sim::run under catch_unwind compared with a reference that enumerates both placements of boundary fates; Sim::step driven by hand with host crashes, completion flag and post-finish/post-crash poll counters checked",
   text="Seeded exploration over fate mixes, instants (on step boundaries and around the duration boundary), ticks, durations, registration phases and crash placements; the run/step result is compared with an executable reference of the property's iff.",
   note="Trusted: the reference `predict` in props/c11.rs. Built with --cfg tokio_unstable as the repository's cargo config does. Boundary fates may land in either adjacent step; two terminal events in one step may surface in either order."),
 "C18": dict(level="fault_enumeration", design="5/C18", technique="deterministic simulation with fault injection: seeded io_uring programs (push/submit/advance/drain/cancel/close/ring drop over 1-2 rings and 1-3 files, latency and page-cache knobs) against the real turmoil-io-uring + turmoil-fs with a harness-owned clock, a host crash injected after every program prefix; oracle = reference file model with effects applied in observed CQE order, latency windows from submit instant, exactly-once accounting of completions",
   text="Per seeded program the crash point is enumerated over every prefix; programs, knobs and drain patterns are sampled by seed. Every CQE is checked against the reference (result, data, timing window, uniqueness) and the final file contents through the synchronous API must equal the model.",
   note="Trusted: fskit reference file model + the ring accounting in props/c18.rs. The harness is the embedder (enters Fs and IoUringHostState with an explicit now). user_data unique per scenario; -EBADF for files closed before reaping is accepted (documented divergence)."),
 "C20": dict(level="exploration", design="5/C20", technique="deterministic simulation: source tasks and a controller on a hand-written executor whose poll order is the seeded schedule (every interleaving of trigger / create / wait / handle drop / barrier drop is a scenario), reference registry of live barriers in creation order as oracle, progress of every source compared after every poll; plus the synchronous trigger path from turmoil-fs's corruption hook inside a real Sim",
   text="Seeded exploration of schedules; because the executor is ours, each poll is a step of the reference model and any lost, duplicated, misrouted trigger or wrong suspension is detected at the poll where it happens.",
   note="Trusted: the reference registry in props/c20.rs and the 40-line executor. trigger_noop is never aimed at a Suspend barrier (documented misuse panic)."),
 "C01": dict(level="exploration", design="5/C01", technique="deterministic simulation with fault injection, used as a determinism test of the simulator itself: seeded multi-host workloads (TCP/UDP, select/spawn/timeouts, fs std+tokio shims, io_uring) under every fault knob and controller script are executed twice per thread, on 16 different threads, and in two fresh OS processes; complete traces (program observations + turmoil's own Send/Delivered/Recv/Drop/Hold events + clocks) compared by digest, first differing event reported",
   text="Seeded exploration over configurations, program mixes and controller scripts; every scenario's full trace must be bit-identical across executions in one thread, and a batch across fresh processes.",
   note="Trusted: the harness programs are deterministic by construction; the tracing capture is one process-wide subscriber writing to thread-local buffers. A divergence is itself nondeterministic, so a reported violation may need load (parallel runs) to recur; the replay file records the observed first differing event. Two defects found and repaired (C01-F1 read_dir order, C01-F2 real clock leaking into fs/io_uring time)."),
}
def main():
    hooks = subprocess.run(["git","-C","/repo","log","--format=%h","--grep=^chore(verif)"],capture_output=True,text=True).stdout.split()
    m = {
      "version": 1,
      "setup_cmd": "cd /verif/harness && CARGO_NET_OFFLINE=true cargo build --release --offline",
      "hooks": {
        "guard": "verif-hooks (cargo feature of crates/turmoil and crates/turmoil-net, off by default)",
        "enable": "the harness depends on /repo/crates/* by path with features = [\"verif-hooks\"] (harness/Cargo.toml); rustflags --cfg tokio_unstable as /repo/.cargo/config.toml does",
        "baseline_off_cmd": "cd /repo && cargo nextest run --workspace --no-fail-fast --tool-config-file pb:/w/lib/nextest.toml --profile pb --test-threads 8 --offline",
        "source_commits": hooks,
        "add_only": True,
      },
      "engines": [
        {"name": "vcheck", "path": "harness/", "serves_properties": sorted(CHECKS), "kind_free_text": "one Rust binary: seeded scenario generator + deterministic executors around the real turmoil crates (fskit: entered Fs; wirekit: harness-owned wire and task executor for turmoil-net; simkit: turmoil::Sim driver), reference-model oracles, minimiser, replay files, known-findings matching, evidence writer"}
      ],
      "checks": [],
      "notes": "Every command rebuilds the harness against /repo's working tree (path dependencies). VERIF_SEED (default 1) decides every scenario. exit 0 held / 1 VIOLATION / 2 harness error. Known findings and repaired defects: known_findings.json + findings/. Seeded breaking changes used for sensitivity: seeded/.",
      "not_applicable": [],
    }
    for pid in ALL:
        if pid in CHECKS:
            c = CHECKS[pid]
            m["checks"].append({
              "property_id": pid,
              "quick_cmd": "./run.sh %s quick" % pid,
              "thorough_cmd": "./run.sh %s thorough" % pid,
              "evidence_file": "evidence/%s.json" % pid,
              "replay_cmd_template": "./run.sh replay {path}",
              "engine": "vcheck",
              "level_claimed": {"category": c["level"], "text": c["text"], "design_ref": "DESIGN.md section " + c["design"]},
              "level_note": c["note"],
              "technique": c["technique"],
            })
        else:
            m["not_applicable"].append({"property_id": pid, "reason": "check not built yet (work in progress); deterministic simulation with fault injection applies to it, see DESIGN.md section 5"})
    json.dump(m, open("/verif/MANIFEST.json", "w"), indent=1)
main()
