#!/usr/bin/env python3
"""Prints the markdown tables that DESIGN.md quotes: measured budgets (from evidence/*.json of the last quick runs and
from thorough_runs.json) and the seeded-change results (from seeded/*/meta.json + result.json)."""
import json,glob,os,sys
def budgets():
    thorough={}
    if os.path.exists('/verif/thorough_runs.json'): thorough=json.load(open('/verif/thorough_runs.json'))
    print('| property | level | quick: base scenarios → evaluations (distinct non-trivial) | quick wall | thorough: evaluations | thorough wall |')
    print('|---|---|---|---|---|---|')
    for i in range(1,21):
        p='C%02d'%i
        try: e=json.load(open('/verif/evidence/%s.json'%p))
        except Exception: continue
        c=e['coverage']; t=thorough.get(p,{})
        print('| %s | %s | %s → %s (%s) | %.0f s | %s | %s |'%(p,e['level'],f"{c.get('base_scenarios',0):,}",f"{c['evaluations']:,}",f"{c['distinct_nontrivial']:,}",e['wall_s'],(f"{t['evaluations']:,}" if t else 'n/a'),(f"{t['wall_s']:.0f} s" if t else 'n/a')))
def seeded():
    print('| id | what the change does (files) | needs | `./run.sh <P> quick` |')
    print('|---|---|---|---|')
    for d in sorted(glob.glob('/verif/seeded/*/')):
        m=json.load(open(d+'meta.json'))
        r=None
        for f in ('result.json','result_lane.json'):
            if os.path.exists(d+f):
                r=json.load(open(d+f)); break
        files=', '.join(os.path.basename(f) for f in (m.get('files_changed') or []))
        what=(m.get('clause_broken') or '').replace('|','/').replace('\n',' ')
        needs=(m.get('what_it_needs_to_manifest') or '').replace('|','/').replace('\n',' ')
        cut=lambda s,n: s if len(s)<=n else s[:n-1]+'…'
        if r is None: res='not run'
        elif r['exit']==1: res='**caught** (%ds): %s'%(r['wall_s'],cut(r['first_violation'].replace('violation class=','').replace('|','/'),90))
        elif r['exit']==0: res='missed (exit 0)'
        else: res='exit %d'%r['exit']
        extra=''
        if os.path.exists(d+'result_thorough.json'):
            rt=json.load(open(d+'result_thorough.json')); extra=' — thorough: '+('**caught**' if rt['exit']==1 else 'missed')
        print('| %s | %s (%s) | %s | %s%s |'%(m['id'],cut(what,170),files,cut(needs,150),res,extra))
if __name__=='__main__':
    if sys.argv[1]=='splice':
        # regenerate the generated parts of DESIGN.md between their BEGIN/END markers
        import io,contextlib,re
        d=open('/verif/DESIGN.md').read()
        for name,fn in (('SEEDED_TABLE',seeded),('BUDGET_TABLE',budgets)):
            buf=io.StringIO()
            with contextlib.redirect_stdout(buf): fn()
            b,e='<!-- %s_BEGIN -->'%name,'<!-- %s_END -->'%name
            if b in d and e in d:
                d=d[:d.index(b)+len(b)]+'\n'+buf.getvalue()+d[d.index(e):]
        open('/verif/DESIGN.md','w').write(d)
    else:
        {'budgets':budgets,'seeded':seeded}[sys.argv[1]]()
